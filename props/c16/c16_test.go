// Package c16 decides C16: shared cache — a successful Fetch installs one complete stored version.
package c16

import (
	"archive/zip"
	"bytes"
	"context"
	"encoding/json"
	"fmt"
	"os"
	"path/filepath"
	"sort"
	"strings"
	"sync"
	"testing"
	"time"

	"github.com/spf13/afero"
	"pgregory.net/rapid"

	"github.com/ARM-software/golang-utils/utils/filesystem"
	"github.com/ARM-software/golang-utils/utils/sharedcache"

	"verif/internal/baton"
	"verif/internal/ev"
	"verif/internal/fsbox"
	"verif/internal/fsx"
	"verif/internal/treegen"
)

const prop = "C16"
// key and remoteName are what the case at hand uses for the cache key and for the directory of the remote storage (cases run
// one after the other within a process; the sequences vary them, everything else uses the defaults)
var key, remoteName = "K", "remote"

func TestMain(m *testing.M) { ev.Main(m) }

// ---- versions: small trees whose every file carries the version id ------------------------------------------------------

type Version struct {
	ID    int `json:"id"`
	Files int `json:"files"`
	Size  int `json:"size"`
}

func (v Version) write(raw afero.Fs, dir string) {
	_ = raw.MkdirAll(filepath.Join(dir, "sub", "deep"), 0o755)
	for i := 0; i < v.Files; i++ {
		name := fmt.Sprintf("file%d.txt", i)
		if i%3 == 1 {
			name = filepath.Join("sub", name)
		} else if i%3 == 2 {
			name = filepath.Join("sub", "deep", name)
		}
		body := strings.Repeat(fmt.Sprintf("version %d file %d|", v.ID, i), 1+v.Size/16)
		_ = afero.WriteFile(raw, filepath.Join(dir, name), []byte(body), 0o644)
	}
	_ = afero.WriteFile(raw, filepath.Join(dir, "VERSION"), []byte(fmt.Sprintf("%d", v.ID)), 0o644)
	// files that exist under that name in this version only, and whose names match the cache's list of items to ignore
	// (which concerns the listing of entries, not the content of a version)
	_ = afero.WriteFile(raw, filepath.Join(dir, fmt.Sprintf("v%d.log", v.ID)), []byte(fmt.Sprintf("log of version %d", v.ID)), 0o644)
	_ = afero.WriteFile(raw, filepath.Join(dir, "sub", fmt.Sprintf("trace-v%d.log", v.ID)), []byte("trace"), 0o644)
	// a file name with a backslash in it (an ordinary character of a name on this platform) and one with blanks
	_ = afero.WriteFile(raw, filepath.Join(dir, "sub", "back\\slash v.txt"), []byte(fmt.Sprintf("backslash %d", v.ID)), 0o644)
	// a genuine archive inside the version: it is content like any other and must come back as the file it is
	var zb bytes.Buffer
	zw := zip.NewWriter(&zb)
	w, _ := zw.Create(fmt.Sprintf("inside-v%d.txt", v.ID))
	_, _ = w.Write([]byte(fmt.Sprintf("packed with version %d", v.ID)))
	_ = zw.Close()
	_ = raw.MkdirAll(filepath.Join(dir, "libs"), 0o755)
	_ = afero.WriteFile(raw, filepath.Join(dir, "libs", "dep.jar"), zb.Bytes(), 0o644)
}

// identify tells which stored version (if any) the destination equals exactly.
func identify(box *fsbox.Box, dest string, versions []Version, sources map[int]treegen.Snapshot) (int, string) {
	got, _ := treegen.Snap(box.Raw, dest)
	for _, v := range versions {
		if d := treegen.Diff(sources[v.ID], got, treegen.DiffOptions{IgnoreTimes: true, IgnoreModes: true}); len(filterRoot(d)) == 0 {
			return v.ID, ""
		}
	}
	var names []string
	for k, e := range got {
		names = append(names, fmt.Sprintf("%s(%s,%d)", k, e.Kind, e.Size))
	}
	sort.Strings(names)
	if len(names) > 14 {
		names = names[:14]
	}
	vfile, _ := afero.ReadFile(box.Raw, filepath.Join(dest, "VERSION"))
	return -1, fmt.Sprintf("VERSION file says %q; content: %v", vfile, names)
}

func filterRoot(d []string) (out []string) {
	for _, x := range d {
		if !strings.Contains(x, ": . ") {
			out = append(out, x)
		}
	}
	return
}

type env struct {
	box      *fsbox.Box
	kind     sharedcache.CacheType
	remote   string
	versions []Version
	sources  map[int]treegen.Snapshot
	srcDir   map[int]string
	nClients int
}

func newEnv(backend string, kind string, versions []Version) *env {
	e := &env{box: fsbox.New(backend), remote: "", versions: versions, sources: map[int]treegen.Snapshot{}, srcDir: map[int]string{}}
	if kind == "immutable" {
		e.kind = sharedcache.CacheImmutable
	} else {
		e.kind = sharedcache.CacheMutable
	}
	e.remote = e.box.Path(remoteName)
	_ = e.box.Raw.MkdirAll(e.remote, 0o755)
	for _, v := range versions {
		d := e.box.Path("src", fmt.Sprintf("v%d", v.ID))
		v.write(e.box.Raw, d)
		e.srcDir[v.ID] = d
		e.sources[v.ID], _ = treegen.Snap(e.box.Raw, d)
	}
	return e
}

func (e *env) client(name string) (*fsx.Client, sharedcache.ISharedCacheRepository) {
	cl, fs := e.box.NewClient(name)
	cache, err := sharedcache.NewCache(e.kind, fs, &sharedcache.Configuration{RemoteStoragePath: e.remote, Timeout: 1500 * time.Millisecond, FilesystemItemsToIgnore: ".*\\.log,ignored"})
	if err != nil {
		panic(err)
	}
	return cl, cache
}

func (e *env) lockDir() string {
	return filepath.Join(e.remote, key, filesystem.LockFilePrefix+"-SharedMutableCache-"+key)
}

// ageLock back-dates whatever lock a dead client left behind (equivalent to time passing).
func (e *env) ageLock() {
	old := time.Now().Add(-2 * time.Second)
	ld := e.lockDir()
	if _, err := e.box.Raw.Stat(ld); err == nil {
		_ = e.box.Raw.Chtimes(ld, old, old)
		if names, err := afero.ReadDir(e.box.Raw, ld); err == nil {
			for _, n := range names {
				_ = e.box.Raw.Chtimes(filepath.Join(ld, n.Name()), old, old)
			}
		}
	}
}

// ---- (a) fault enumeration over every backend operation of a Store -----------------------------------------------------------

type FaultCase struct {
	Backend string  `json:"backend"`
	Cache   string  `json:"cache"` // mutable | immutable
	V1, V2  Version `json:"-"`
	Files   int     `json:"files"`
	K       int64   `json:"fault_at_operation"` // 1-based index among the operations of the second Store
	Fault   string  `json:"fault"`              // error | short | revoke | silent (a write persists half yet reports success)
	// AssertHashFault: kept for the replay of C16-R19 (repaired: its fault points are no longer set aside)
	AssertHashFault bool `json:"assert_hash_fault,omitempty"`
	// At names the operation to fail by what it is instead of by its index (replays only; K is then ignored):
	// "hash-side-file-open" = the opening (for writing) of the remote .hash side file; "archive-write" = the first write of the
	// package being built in the temporary directory (for a small tree: the flush of the whole archive when it is closed)
	At string `json:"fault_at,omitempty"`
}

func isHashSideFile(op *fsx.Op, remote string) bool {
	return strings.HasPrefix(op.Path, remote+string(filepath.Separator)) && strings.HasSuffix(op.Path, ".hash") &&
		(op.Kind == "openfile" || op.Kind == "create" || op.Kind == "write" || op.Kind == "writestring" || op.Kind == "close")
}

// measureStore returns the number of backend operations the second Store performs when nothing fails.
func measureStore(backend, cache string, files int) int64 {
	v1, v2 := Version{ID: 1, Files: files, Size: 64}, Version{ID: 2, Files: files + 1, Size: 96}
	e := newEnv(backend, cache, []Version{v1, v2})
	defer e.box.Close()
	_, c1 := e.client("writer1")
	if err := c1.Store(context.Background(), key, e.srcDir[1]); err != nil {
		panic(fmt.Sprintf("fault-free Store failed: %v", err))
	}
	_, c2 := e.client("writer2")
	var n int64
	e.box.Backend.After = func(op *fsx.Op) {
		if op.Client == "writer2" {
			n++
		}
	}
	if err := c2.Store(context.Background(), key, e.srcDir[2]); err != nil {
		panic(fmt.Sprintf("fault-free second Store failed: %v", err))
	}
	time.Sleep(60 * time.Millisecond) // let a last heart-beat finish
	return n
}

func checkFault(t ev.T, test string, c FaultCase) (skipped string) {
	v1, v2 := Version{ID: 1, Files: c.Files, Size: 64}, Version{ID: 2, Files: c.Files + 1, Size: 96}
	e := newEnv(c.Backend, c.Cache, []Version{v1, v2})
	defer e.box.Close()
	e.box.Backend.KeepOps(false)
	ctx := context.Background()
	_, c1 := e.client("writer1")
	if err := c1.Store(ctx, key, e.srcDir[1]); err != nil {
		ev.Fail(t, prop, test, c, "fault-free Store of version 1 failed: %v", err)
	}
	cl2, c2 := e.client("writer2")
	var n int64
	var hit *fsx.Op
	var mu sync.Mutex
	e.box.Backend.FaultAt = func(op *fsx.Op, _ int64) *fsx.Fault {
		if op.Client != "writer2" {
			return nil
		}
		mu.Lock()
		defer mu.Unlock()
		n++
		switch c.At {
		case "":
			if n != c.K {
				return nil
			}
		case "hash-side-file-open":
			if hit != nil || !isHashSideFile(op, e.remote) || op.Kind != "openfile" {
				return nil
			}
		case "archive-write":
			if hit != nil || op.Kind != "write" || !strings.HasSuffix(op.Path, "cache.zip") || strings.HasPrefix(op.Path, e.remote) {
				return nil
			}
		default:
			return nil
		}
		cp := *op
		hit = &cp
		switch c.Fault {
		case "short":
			return &fsx.Fault{Kind: "short"}
		case "revoke":
			return &fsx.Fault{Kind: "revoke"}
		case "silent":
			return &fsx.Fault{Kind: "silent"}
		}
		return &fsx.Fault{Kind: "error"}
	}
	var serr error
	done := make(chan struct{})
	go func() {
		defer close(done)
		defer func() {
			if r := recover(); r != nil {
				serr = fmt.Errorf("PANIC %v", r)
			}
		}()
		serr = c2.Store(ctx, key, e.srcDir[2])
	}()
	select {
	case <-done:
	case <-time.After(30 * time.Second):
		ev.Fail(t, prop, test, c, "the interrupted Store did not return within 30 s")
	}
	if serr != nil && strings.HasPrefix(serr.Error(), "PANIC") {
		ev.Fail(t, prop, test, c, "Store panicked: %v", serr)
	}
	mu.Lock()
	h := hit
	mu.Unlock()
	if h == nil {
		return "fault point beyond the end of this run"
	}
	if (c.Fault == "short" || c.Fault == "silent") && !(h.Kind == "write" || h.Kind == "writestring" || h.Kind == "writeat") {
		return "short write on a non-write operation"
	}
	// a write that silently loses data is only in scope where the library claims to verify: the hash-verified transfer
	// of the package into the remote entry (anywhere else nothing could notice it)
	if c.Fault == "silent" && (!strings.HasPrefix(h.Path, e.remote+string(filepath.Separator)) || strings.HasSuffix(h.Path, ".hash") || strings.HasPrefix(h.Path, e.lockDir())) {
		return "silent data loss outside the verified transfer"
	}
	crashed := c.Fault == "revoke"
	if crashed {
		cl2.Revoke()
		time.Sleep(5 * time.Millisecond)
		e.ageLock()
	}
	// recovery by a fresh client
	_, reader := e.client("reader")
	if c.Cache == "mutable" || crashed {
		_ = reader.CleanEntry(ctx, key)
	}
	dest := e.box.Path("dest")
	var ferr error
	ev.Guard(t, prop, test, c, func() { ferr = reader.Fetch(ctx, key, dest) })
	what := fmt.Sprintf("fault %q at operation %d of the second Store (%s); that Store returned %v", c.Fault, c.K, strings.ReplaceAll(h.String(), e.box.Root, ""), serr)
	if ferr == nil {
		id, detail := identify(e.box, dest, e.versions, e.sources)
		if id < 0 {
			ev.Fail(t, prop, test, c, "Fetch reported success but the destination is not one complete stored version (%s). %s", detail, what)
		}
		if !crashed && serr == nil && id != 2 {
			ev.Fail(t, prop, test, c, "the Store of version 2 reported success but a later Fetch installed version %d. %s", id, what)
		}
		ev.Class(fmt.Sprintf("fetch-after-fault: version %d", id))
	} else {
		if !crashed && serr == nil {
			ev.Fail(t, prop, test, c, "the Store of version 2 reported success (an individual operation had failed) but a later Fetch fails: %v. %s", ferr, what)
		}
		ev.Class("fetch-after-fault: error")
	}
	return ""
}

// TestFaultEnumeration: every operation index x fault kind x cache kind (sharded over the driver's processes).
func TestFaultEnumeration(t *testing.T) {
	shard, shards := ev.Shard()
	// The lock-based (mutable) cache runs on the OS backend only: the library's own documentation says that the file lock
	// must not be used on the in-memory filesystem (afero creates missing parents implicitly, so a heart-beat in flight
	// resurrects a lock directory that was just removed).
	combos := [][2]string{{"os", "mutable"}, {"mem", "immutable"}}
	if ev.Thorough() {
		combos = append(combos, [2]string{"os", "immutable"})
	}
	var n, nt int64
	i := 0
	for _, combo := range combos {
		backend := combo[0]
		for _, cache := range []string{combo[1]} {
			total := measureStore(backend, cache, 3)
			ev.MetricMax("operations-of-a-store/"+cache+"/"+backend, float64(total))
			for k := int64(1); k <= total; k++ {
				for _, f := range []string{"error", "short", "revoke", "silent"} {
					i++
					if i%shards != shard {
						continue
					}
					c := FaultCase{Backend: backend, Cache: cache, Files: 3, K: k, Fault: f}
					if s := checkFault(t, "TestFaultEnumeration", c); s == "" {
						n++
						nt++
					}
				}
			}
		}
	}
	ev.Bulk(n, nt, "fault-enumeration")
	ev.Sample(FaultCase{Backend: "mem", Cache: "mutable", Files: 3, K: 100, Fault: "revoke"})
	ev.Exhaustive("every backend operation of a Store x {error, short write, process stop} x {mutable, immutable}")
}

// ---- (a') fault enumeration over every backend operation of a Fetch -------------------------------------------------------

type FetchFaultCase struct {
	Backend string `json:"backend"`
	Cache   string `json:"cache"`
	Files   int    `json:"files"`
	K       int64  `json:"fault_at_operation"` // 1-based index among the operations of the Fetch
	Fault   string `json:"fault"`              // error | short
}

// fetchEnv stores two versions without any fault and returns the environment.
func fetchEnv(t ev.T, backend, cache string, files int) *env {
	v1, v2 := Version{ID: 1, Files: files, Size: 64}, Version{ID: 2, Files: files + 1, Size: 96}
	e := newEnv(backend, cache, []Version{v1, v2})
	e.box.Backend.KeepOps(false)
	_, w := e.client("writer")
	for id := 1; id <= 2; id++ {
		if err := w.Store(context.Background(), key, e.srcDir[id]); err != nil {
			e.box.Close()
			t.Fatalf("HARNESS: fault-free Store of version %d failed: %v", id, err)
		}
		time.Sleep(2 * time.Millisecond) // the immutable cache orders versions by modification time
	}
	return e
}

func measureFetch(t ev.T, backend, cache string, files int) int64 {
	e := fetchEnv(t, backend, cache, files)
	defer e.box.Close()
	_, r := e.client("reader")
	var n int64
	e.box.Backend.After = func(op *fsx.Op) {
		if op.Client == "reader" {
			n++
		}
	}
	if err := r.Fetch(context.Background(), key, e.box.Path("dest")); err != nil {
		t.Fatalf("HARNESS: fault-free Fetch failed: %v", err)
	}
	time.Sleep(60 * time.Millisecond)
	return n
}

func checkFetchFault(t ev.T, test string, c FetchFaultCase) (skipped string) {
	e := fetchEnv(t, c.Backend, c.Cache, c.Files)
	defer e.box.Close()
	ctx := context.Background()
	_, r := e.client("reader")
	var n int64
	var hit *fsx.Op
	var mu sync.Mutex
	e.box.Backend.FaultAt = func(op *fsx.Op, _ int64) *fsx.Fault {
		if op.Client != "reader" {
			return nil
		}
		mu.Lock()
		defer mu.Unlock()
		n++
		if n != c.K {
			return nil
		}
		cp := *op
		hit = &cp
		if c.Fault == "short" {
			return &fsx.Fault{Kind: "short"}
		}
		return &fsx.Fault{Kind: "error"}
	}
	dest := e.box.Path("dest")
	var ferr error
	ev.Guard(t, prop, test, c, func() { ferr = r.Fetch(ctx, key, dest) })
	mu.Lock()
	h := hit
	mu.Unlock()
	e.box.Backend.FaultAt = nil
	if h == nil {
		return "fault point beyond the end of this run"
	}
	if c.Fault == "short" && !(h.Kind == "write" || h.Kind == "writestring" || h.Kind == "writeat") {
		return "short write on a non-write operation"
	}
	what := fmt.Sprintf("fault %q at operation %d of the Fetch (%s); Fetch returned %v", c.Fault, c.K, strings.ReplaceAll(h.String(), e.box.Root, ""), ferr)
	if ferr == nil {
		id, detail := identify(e.box, dest, e.versions, e.sources)
		if id < 0 {
			ev.Fail(t, prop, test, c, "Fetch reported success but the destination is not one complete stored version (%s). %s", detail, what)
		}
		if id != 2 {
			ev.Fail(t, prop, test, c, "Fetch reported success but installed version %d although version 2 was stored last (nothing was interrupted). %s", id, what)
		}
		ev.Class("fetch-under-fault: success, version 2")
	} else {
		ev.Class("fetch-under-fault: error")
	}
	// the cache itself must be unharmed: a fresh client fetches version 2
	_, r2 := e.client("reader2")
	dest2 := e.box.Path("dest2")
	var ferr2 error
	ev.Guard(t, prop, test, c, func() { ferr2 = r2.Fetch(ctx, key, dest2) })
	if ferr2 != nil {
		ev.Fail(t, prop, test, c, "after a Fetch during which one operation failed, a later fault-free Fetch by another client fails: %v. %s", ferr2, what)
	} else if id, detail := identify(e.box, dest2, e.versions, e.sources); id != 2 {
		ev.Fail(t, prop, test, c, "after a Fetch during which one operation failed, a later fault-free Fetch installs version %d (%s) instead of version 2. %s", id, detail, what)
	}
	return ""
}

func TestFetchFaultEnumeration(t *testing.T) {
	shard, shards := ev.Shard()
	combos := [][2]string{{"os", "mutable"}, {"mem", "immutable"}}
	if ev.Thorough() {
		combos = append(combos, [2]string{"os", "immutable"})
	}
	var n int64
	i := 0
	for _, combo := range combos {
		total := measureFetch(t, combo[0], combo[1], 3)
		ev.MetricMax("operations-of-a-fetch/"+combo[1]+"/"+combo[0], float64(total))
		for k := int64(1); k <= total; k++ {
			for _, f := range []string{"error", "short"} {
				i++
				if i%shards != shard {
					continue
				}
				c := FetchFaultCase{Backend: combo[0], Cache: combo[1], Files: 3, K: k, Fault: f}
				if s := checkFetchFault(t, "TestFetchFaultEnumeration", c); s == "" {
					n++
				}
			}
		}
	}
	ev.Bulk(n, n, "fetch-fault-enumeration")
	ev.Sample(FetchFaultCase{Backend: "os", Cache: "mutable", Files: 3, K: 40, Fault: "error"})
	ev.Exhaustive("every backend operation of a Fetch x {error, short write} x {mutable, immutable}")
}

// ---- (b) sequences with faults at generated points ------------------------------------------------------------------------------

type SeqOp struct {
	Op      string `json:"op"` // store | fetch | clean | remove
	Client  int    `json:"client"`
	Version int    `json:"version,omitempty"`
	FaultAt int64  `json:"fault_at,omitempty"` // store only: 0 none
	Fault   string `json:"fault,omitempty"`
	// FaultOn (replays): instead of an index, the n-th operation of that kind on the entry of the key in the remote
	// storage ("stat-of-the-entry:3"): survives changes of what a version contains
	FaultOn string `json:"fault_on,omitempty"`
}

type SeqCase struct {
	// Key / Remote: spelling of the cache key and of the remote directory (default "K" / "remote")
	Key      string    `json:"key,omitempty"`
	Remote   string    `json:"remote_dir,omitempty"`
	Backend  string    `json:"backend"`
	Cache    string    `json:"cache"`
	Versions []Version `json:"versions"`
	Ops      []SeqOp   `json:"ops"`
	// SrcSpelling: how Store is given the directory to store: "" clean, slash = trailing separator, dot = /./ before the
	// last element, double = doubled separator, dotdot = <dir>/<base>/../<base>
	SrcSpelling string `json:"source_spelling,omitempty"`
}

func spell(p, how string) string {
	dir, base := filepath.Dir(p), filepath.Base(p)
	sep := string(filepath.Separator)
	switch how {
	case "slash":
		return p + sep
	case "dot":
		return dir + sep + "." + sep + base
	case "double":
		return dir + sep + sep + base
	case "dotdot":
		return p + sep + ".." + sep + base
	}
	return p
}

func checkSeq(t ev.T, test string, c SeqCase) {
	if c.Key != "" {
		key = c.Key
	}
	if c.Remote != "" {
		remoteName = c.Remote
	}
	defer func() { key, remoteName = "K", "remote" }()
	e := newEnv(c.Backend, c.Cache, c.Versions)
	defer e.box.Close()
	e.box.Backend.KeepOps(false)
	ctx := context.Background()
	type cli struct {
		cl    *fsx.Client
		cache sharedcache.ISharedCacheRepository
		dead  bool
	}
	clients := map[int]*cli{}
	get := func(i int) *cli {
		if c, ok := clients[i]; ok && !c.dead {
			return c
		}
		name := fmt.Sprintf("client%d-%d", i, len(clients))
		cl, cache := e.client(name)
		clients[i] = &cli{cl: cl, cache: cache}
		return clients[i]
	}
	stored := map[int]bool{} // versions whose Store has at least begun
	latest := 0              // version of the last Store that reported success with nothing interrupted since
	uncertain := false       // an interrupted / failed Store happened since `latest`
	for i, op := range c.Ops {
		cl := get(op.Client)
		switch op.Op {
		case "store":
			stored[op.Version] = true
			var n int64
			faulted := false
			if op.FaultOn != "" {
				parts := strings.SplitN(op.FaultOn, ":", 2)
				kind, nth := strings.TrimSuffix(parts[0], "-of-the-entry"), int64(1)
				if len(parts) == 2 {
					fmt.Sscanf(parts[1], "%d", &nth)
				}
				entry := filepath.Join(e.remote, key)
				var seen int64
				e.box.Backend.FaultAt = func(o *fsx.Op, _ int64) *fsx.Fault {
					if o.Client != clName(cl.cl) || o.Kind != kind || o.Path != entry {
						return nil
					}
					if seen++; seen != nth {
						return nil
					}
					faulted = true
					return &fsx.Fault{Kind: "error"}
				}
			}
			if op.FaultAt > 0 {
				name := ""
				for nm, x := range clients {
					if x == cl {
						name = fmt.Sprint(nm)
					}
				}
				_ = name
				e.box.Backend.FaultAt = func(o *fsx.Op, _ int64) *fsx.Fault {
					if o.Client != clName(cl.cl) {
						return nil
					}
					n++
					if n != op.FaultAt {
						return nil
					}
					faulted = true
					if op.Fault == "short" && (o.Kind == "write" || o.Kind == "writestring") {
						return &fsx.Fault{Kind: "short"}
					}
					if op.Fault == "revoke" {
						return &fsx.Fault{Kind: "revoke"}
					}
					return &fsx.Fault{Kind: "error"}
				}
			}
			err := cl.cache.Store(ctx, key, spell(e.srcDir[op.Version], c.SrcSpelling))
			e.box.Backend.FaultAt = nil
			if faulted && op.Fault == "revoke" {
				cl.dead = true
				cl.cl.Revoke()
				time.Sleep(5 * time.Millisecond)
				e.ageLock()
				uncertain = true
			} else if err != nil {
				uncertain = true
			} else {
				latest, uncertain = op.Version, false
			}
		case "clean":
			_ = cl.cache.CleanEntry(ctx, key)
		case "remove":
			if err := cl.cache.RemoveEntry(ctx, key); err == nil {
				latest, uncertain = 0, false
				stored = map[int]bool{}
			}
		case "fetch":
			// every client fetches into its own working directory again and again: what an earlier Fetch installed there is
			// still present when the next one begins
			dest := e.box.Path(fmt.Sprintf("dest-of-client%d", op.Client))
			err := cl.cache.Fetch(ctx, key, dest)
			if err == nil {
				id, detail := identify(e.box, dest, e.versions, e.sources)
				if id < 0 || !stored[id] {
					ev.Fail(t, prop, test, c, "op %d: Fetch reported success but the destination is not one complete version passed to Store (identified as %d; %s)", i, id, detail)
				}
				if !uncertain && latest != 0 && id != latest {
					ev.Fail(t, prop, test, c, "op %d: Fetch installed version %d although the last Store that reported success stored version %d", i, id, latest)
				}
				ev.Class("seq-fetch-ok")
			} else {
				if !uncertain && latest != 0 {
					ev.Fail(t, prop, test, c, "op %d: version %d was stored successfully and nothing was interrupted since, but Fetch fails: %v", i, latest, err)
				}
				ev.Class("seq-fetch-error")
			}
		}
	}
}

func clName(c *fsx.Client) string { return c.Name() }

func genVersions(t *rapid.T) []Version {
	n := rapid.IntRange(1, 3).Draw(t, "versions")
	var vs []Version
	for i := 1; i <= n; i++ {
		vs = append(vs, Version{ID: i, Files: rapid.IntRange(1, 6).Draw(t, fmt.Sprintf("files%d", i)), Size: rapid.SampledFrom([]int{0, 16, 300, 5000}).Draw(t, fmt.Sprintf("size%d", i))})
	}
	return vs
}

func genSeq(t *rapid.T) SeqCase {
	c := SeqCase{Backend: rapid.SampledFrom([]string{"mem", "mem", "os"}).Draw(t, "backend"), Cache: rapid.SampledFrom([]string{"mutable", "immutable"}).Draw(t, "cache"), Versions: genVersions(t)}
	if c.Cache == "mutable" {
		c.Backend = "os" // see TestFaultEnumeration
	}
	// keys and storage paths are free text: they may well contain what the implementation uses as markers
	c.Key = rapid.SampledFrom([]string{"", "", "v1.partial", "a.part", "k.hash", "cache.zip", "x.part.y", "lockfile-K", "K L"}).Draw(t, "key")
	c.Remote = rapid.SampledFrom([]string{"", "", "", "remote.parts", "store.hash", "a.part"}).Draw(t, "remote-dir")
	c.SrcSpelling = rapid.SampledFrom([]string{"", "", "", "slash", "dot", "double", "dotdot"}).Draw(t, "src-spelling")
	n := rapid.IntRange(2, 10).Draw(t, "ops")
	for i := 0; i < n; i++ {
		op := SeqOp{Op: rapid.SampledFrom([]string{"store", "store", "fetch", "fetch", "fetch", "clean", "remove"}).Draw(t, fmt.Sprintf("op%d", i)), Client: rapid.IntRange(0, 3).Draw(t, fmt.Sprintf("cl%d", i))}
		if op.Op == "store" {
			op.Version = rapid.IntRange(1, len(c.Versions)).Draw(t, fmt.Sprintf("v%d", i))
			if rapid.IntRange(0, 2).Draw(t, fmt.Sprintf("faulty%d", i)) == 0 {
				op.FaultAt = int64(rapid.IntRange(1, 700).Draw(t, fmt.Sprintf("k%d", i)))
				op.Fault = rapid.SampledFrom([]string{"error", "short", "revoke"}).Draw(t, fmt.Sprintf("f%d", i))
			}
		}
		if op.Op == "remove" && rapid.IntRange(0, 2).Draw(t, fmt.Sprintf("rm%d", i)) > 0 {
			op.Op = "fetch"
		}
		c.Ops = append(c.Ops, op)
	}
	return c
}

func TestSequences(t *testing.T) {
	rapid.Check(t, func(rt *rapid.T) {
		c := genSeq(rt)
		k, _ := json.Marshal(c)
		nt := false
		for _, o := range c.Ops {
			if o.FaultAt > 0 {
				nt = true
			}
		}
		ev.Case(string(k), nt, "sequences/"+c.Cache+"/"+c.Backend, c)
		checkSeq(rt, "TestSequences", c)
	})
}

// ---- (c) interleavings under the baton scheduler ------------------------------------------------------------------------------------

type ConcOp struct {
	Op      string `json:"op"` // store | fetch | clean
	Version int    `json:"version,omitempty"`
}

type ConcCase struct {
	Backend  string     `json:"backend"`
	Cache    string     `json:"cache"`
	Versions []Version  `json:"versions"`
	Programs [][]ConcOp `json:"programs"` // one per client
	Schedule [][]int    `json:"schedule"`
}

func checkConc(t ev.T, test string, c ConcCase) {
	e := newEnv(c.Backend, c.Cache, c.Versions)
	defer e.box.Close()
	e.box.Backend.KeepOps(false)
	ctx := context.Background()
	// version 1 is in the cache before the race starts
	_, seed := e.client("seed")
	if err := seed.Store(ctx, key, e.srcDir[1]); err != nil {
		ev.Fail(t, prop, test, c, "initial Store failed: %v", err)
	}
	isBg := func(op *fsx.Op) bool {
		// heart-beats of the entry lock are never parked
		return strings.HasSuffix(op.Path, ".lock") && (op.Kind == "openfile" || op.Kind == "write" || op.Kind == "close" || op.Kind == "chtimes")
	}
	sched := baton.New(e.box.Backend, isBg)
	var mu sync.Mutex
	begun := map[int]bool{1: true}
	type result struct {
		client int
		dest   string
		err    error
	}
	var results []result
	var names []string
	var wg sync.WaitGroup
	for i, prog := range c.Programs {
		name := fmt.Sprintf("client%d", i+1)
		names = append(names, name)
		_, cache := e.client(name)
		i, prog := i, prog
		wg.Add(1)
		sched.Go(name, func() {
			defer wg.Done()
			for j, op := range prog {
				switch op.Op {
				case "store":
					mu.Lock()
					begun[op.Version] = true
					mu.Unlock()
					_ = cache.Store(ctx, key, e.srcDir[op.Version])
				case "clean":
					_ = cache.CleanEntry(ctx, key)
				case "fetch":
					dest := e.box.Path(fmt.Sprintf("dest-%d-%d", i, j))
					err := cache.Fetch(ctx, key, dest)
					mu.Lock()
					results = append(results, result{i, dest, err})
					mu.Unlock()
				}
			}
		})
	}
	for g := 0; g < 60000 && !sched.AllDone(); g++ {
		perm := c.Schedule[g%len(c.Schedule)]
		prio := make([]string, 0, len(perm))
		for _, p := range perm {
			if p < len(names) {
				prio = append(prio, names[p])
			}
		}
		sched.Step(prio, nil, 200*time.Millisecond)
	}
	sched.ReleaseAll()
	done := make(chan struct{})
	go func() { wg.Wait(); close(done) }()
	select {
	case <-done:
	case <-time.After(60 * time.Second):
		ev.Inconclusive("interleaving did not finish within 60 s")
		return
	}
	for _, r := range results {
		if r.err != nil {
			ev.Class("conc-fetch-error")
			continue
		}
		id, detail := identify(e.box, r.dest, e.versions, e.sources)
		if id < 0 || !begun[id] {
			ev.Fail(t, prop, test, c, "a Fetch by client %d reported success but installed something that is not one complete stored version (identified as %d; %s)", r.client+1, id, detail)
		}
		ev.Class(fmt.Sprintf("conc-fetch-ok-v%d", id))
	}
}

func genConc(t *rapid.T) ConcCase {
	c := ConcCase{Backend: rapid.SampledFrom([]string{"mem", "mem", "os"}).Draw(t, "backend"), Cache: rapid.SampledFrom([]string{"mutable", "immutable"}).Draw(t, "cache")}
	if c.Cache == "mutable" {
		c.Backend = "os" // see TestFaultEnumeration
	}
	c.Versions = []Version{{ID: 1, Files: 2, Size: 32}, {ID: 2, Files: 4, Size: 200}, {ID: 3, Files: 3, Size: 3000}}
	n := rapid.IntRange(2, 4).Draw(t, "clients")
	for i := 0; i < n; i++ {
		m := rapid.IntRange(1, 2).Draw(t, fmt.Sprintf("ops%d", i))
		var prog []ConcOp
		for j := 0; j < m; j++ {
			op := ConcOp{Op: rapid.SampledFrom([]string{"store", "fetch", "fetch", "clean"}).Draw(t, fmt.Sprintf("op%d-%d", i, j))}
			if op.Op == "store" {
				op.Version = rapid.IntRange(2, 3).Draw(t, fmt.Sprintf("v%d-%d", i, j))
			}
			prog = append(prog, op)
		}
		c.Programs = append(c.Programs, prog)
	}
	base := make([]int, n)
	for i := range base {
		base[i] = i
	}
	m := rapid.IntRange(5, 40).Draw(t, "schedule")
	for i := 0; i < m; i++ {
		c.Schedule = append(c.Schedule, rapid.Permutation(base).Draw(t, fmt.Sprintf("prio%d", i)))
	}
	return c
}

func TestInterleavings(t *testing.T) {
	rapid.Check(t, func(rt *rapid.T) {
		c := genConc(rt)
		k, _ := json.Marshal(c)
		ev.Case(string(k), true, "interleavings/"+c.Cache+"/"+c.Backend, c)
		checkConc(rt, "TestInterleavings", c)
	})
}

// ---- (d) the entry lock of another client survives a timed-out Fetch / Store -------------------------------------------------

type HeldCase struct {
	Op        string `json:"op"` // fetch | store
	TimeoutMs int    `json:"timeout_ms"`
	HoldMs    int    `json:"hold_ms"`
}

func checkHeld(t ev.T, test string, c HeldCase) {
	e := newEnv("os", "mutable", []Version{{ID: 1, Files: 2, Size: 32}, {ID: 2, Files: 3, Size: 64}})
	defer e.box.Close()
	ctx := context.Background()
	_, seed := e.client("seed")
	if err := seed.Store(ctx, key, e.srcDir[1]); err != nil {
		ev.Fail(t, prop, test, c, "initial Store failed: %v", err)
	}
	// another client holds the entry lock (exactly the lock the cache uses)
	_, hfs := e.box.NewClient("holder")
	held := filesystem.NewRemoteLockFile(hfs.(*filesystem.VFS), "SharedMutableCache-"+key, filepath.Join(e.remote, key))
	life, end := context.WithCancel(ctx)
	defer end()
	if err := held.TryLock(life); err != nil {
		ev.Fail(t, prop, test, c, "could not take the entry lock: %v", err)
	}
	_, fs := e.box.NewClient("late")
	cache, err := sharedcache.NewCache(sharedcache.CacheMutable, fs, &sharedcache.Configuration{RemoteStoragePath: e.remote, Timeout: time.Duration(c.TimeoutMs) * time.Millisecond})
	if err != nil {
		t.Fatalf("HARNESS: %v", err)
	}
	var operr error
	if c.Op == "fetch" {
		operr = cache.Fetch(ctx, key, e.box.Path("dest"))
	} else {
		operr = cache.Store(ctx, key, e.srcDir[2])
	}
	if operr == nil {
		ev.Fail(t, prop, test, c, "%s succeeded while another client holds the entry lock", c.Op)
	}
	if _, serr := e.box.Raw.Stat(e.lockDir()); serr != nil {
		ev.Fail(t, prop, test, c, "%s timed out (%v) and removed the entry lock held by another client", c.Op, operr)
	}
	time.Sleep(time.Duration(c.HoldMs) * time.Millisecond)
	if err := held.Unlock(ctx); err != nil {
		ev.Fail(t, prop, test, c, "the holder could not release its own lock afterwards: %v", err)
	}
	dest := e.box.Path("dest-after")
	if ferr := seed.Fetch(ctx, key, dest); ferr != nil {
		ev.Fail(t, prop, test, c, "Fetch fails after the holder released the lock: %v", ferr)
	} else if id, detail := identify(e.box, dest, e.versions, e.sources); id != 1 {
		ev.Fail(t, prop, test, c, "after a timed-out %s the cache no longer holds version 1 (identified %d; %s)", c.Op, id, detail)
	}
}

func TestHeldEntryLock(t *testing.T) {
	rapid.Check(t, func(rt *rapid.T) {
		c := HeldCase{Op: rapid.SampledFrom([]string{"fetch", "store"}).Draw(rt, "op"), TimeoutMs: rapid.IntRange(5, 120).Draw(rt, "timeout"), HoldMs: rapid.IntRange(0, 30).Draw(rt, "hold")}
		k, _ := json.Marshal(c)
		ev.Case(string(k), true, "held-entry-lock/"+c.Op, c)
		checkHeld(rt, "TestHeldEntryLock", c)
	})
}

func init() {
	ev.RegisterReplay("TestHeldEntryLock", func(t ev.T, raw json.RawMessage) {
		var c HeldCase
		if err := json.Unmarshal(raw, &c); err != nil {
			t.Fatalf("HARNESS: %v", err)
		}
		checkHeld(t, "TestHeldEntryLock", c)
	})
	ev.RegisterReplay("TestFetchFaultEnumeration", func(t ev.T, raw json.RawMessage) {
		var c FetchFaultCase
		if err := json.Unmarshal(raw, &c); err != nil {
			t.Fatalf("HARNESS: %v", err)
		}
		checkFetchFault(t, "TestFetchFaultEnumeration", c)
	})
	ev.RegisterReplay("TestFaultEnumeration", func(t ev.T, raw json.RawMessage) {
		var c FaultCase
		if err := json.Unmarshal(raw, &c); err != nil {
			t.Fatalf("HARNESS: %v", err)
		}
		checkFault(t, "TestFaultEnumeration", c)
	})
	ev.RegisterReplay("TestSequences", func(t ev.T, raw json.RawMessage) {
		var c SeqCase
		if err := json.Unmarshal(raw, &c); err != nil {
			t.Fatalf("HARNESS: %v", err)
		}
		checkSeq(t, "TestSequences", c)
	})
	ev.RegisterReplay("TestInterleavings", func(t ev.T, raw json.RawMessage) {
		var c ConcCase
		if err := json.Unmarshal(raw, &c); err != nil {
			t.Fatalf("HARNESS: %v", err)
		}
		checkConc(t, "TestInterleavings", c)
	})
}

func TestReplay(t *testing.T)      { ev.RunReplay(t) }
func TestRegressions(t *testing.T) { ev.Regressions(t, prop) }

var _ = os.Getpid
