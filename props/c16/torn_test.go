package c16

import (
	"archive/zip"
	"bytes"
	"context"
	"encoding/json"
	"fmt"
	"path/filepath"
	"strings"
	"sync"
	"testing"
	"time"

	"github.com/spf13/afero"

	"verif/internal/ev"
	"verif/internal/fsx"
	"verif/internal/treegen"
)

// ---- (a'') a Store stopped in the middle of a write: crash points at byte granularity of the transfer ---------------------------
//
// The package is copied into the remote storage by a sequence of writes; a process can stop after any number of bytes. The
// version stored here holds what build caches typically hold: an archive that does not compress (it is kept verbatim inside
// the package) followed by incompressible data.

type TornCase struct {
	Backend string `json:"backend"`
	Cache   string `json:"cache"`
	First   bool   `json:"first_store_of_the_key"` // nothing was stored under the key before
	Inner   int    `json:"inner_archive_member_bytes"`
	Pad     int    `json:"incompressible_bytes_after_it"`
	At      int64  `json:"bytes_of_the_package_that_reached_the_remote_storage"`
}

// noise is incompressible and a pure function of its arguments.
func noise(n int, seed uint64) []byte {
	out := make([]byte, n)
	x := seed*0x9E3779B97F4A7C15 + 0x1234567
	for i := range out {
		x ^= x << 13
		x ^= x >> 7
		x ^= x << 17
		out[i] = byte(x >> 24)
	}
	return out
}

// writeBulk adds to the source tree of a version an incompressible archive (one stored member) and incompressible data.
func writeBulk(raw afero.Fs, dir string, id, inner, pad int) {
	var zb bytes.Buffer
	zw := zip.NewWriter(&zb)
	w, _ := zw.CreateHeader(&zip.FileHeader{Name: "x", Method: zip.Store})
	_, _ = w.Write(noise(inner, uint64(id)))
	_ = zw.Close()
	_ = afero.WriteFile(raw, filepath.Join(dir, "a_tools.zip"), zb.Bytes(), 0o644)
	_ = raw.MkdirAll(filepath.Join(dir, "b"), 0o755)
	_ = afero.WriteFile(raw, filepath.Join(dir, "b", "data.bin"), noise(pad, uint64(id)+77), 0o644)
}

func isTransferWrite(op *fsx.Op, e *env) bool {
	return (op.Kind == "write" || op.Kind == "writestring" || op.Kind == "writeat") && strings.HasPrefix(op.Path, e.remote+string(filepath.Separator)) &&
		!strings.HasSuffix(op.Path, ".hash") && !strings.HasPrefix(op.Path, e.lockDir())
}

func newTornEnv(c TornCase) *env {
	v1, v2 := Version{ID: 1, Files: 3, Size: 64}, Version{ID: 2, Files: 4, Size: 96}
	e := newEnv(c.Backend, c.Cache, []Version{v1, v2})
	writeBulk(e.box.Raw, e.srcDir[2], 2, c.Inner, c.Pad)
	e.sources[2], _ = treegen.Snap(e.box.Raw, e.srcDir[2])
	return e
}

// measureTransfer returns the number of bytes a fault-free Store of the bulky version writes into the remote storage.
func measureTransfer(c TornCase) int64 {
	e := newTornEnv(c)
	defer e.box.Close()
	var n int64
	var mu sync.Mutex
	e.box.Backend.After = func(op *fsx.Op) {
		if op.Client == "writer2" && isTransferWrite(op, e) {
			mu.Lock()
			n += int64(op.N)
			mu.Unlock()
		}
	}
	_, c2 := e.client("writer2")
	if err := c2.Store(context.Background(), key, e.srcDir[2]); err != nil {
		panic(fmt.Sprintf("fault-free Store failed: %v", err))
	}
	mu.Lock()
	defer mu.Unlock()
	return n
}

func checkTorn(t ev.T, test string, c TornCase) (skipped string) {
	e := newTornEnv(c)
	defer e.box.Close()
	e.box.Backend.KeepOps(false)
	ctx := context.Background()
	if !c.First {
		_, c1 := e.client("writer1")
		if err := c1.Store(ctx, key, e.srcDir[1]); err != nil {
			ev.Fail(t, prop, test, c, "fault-free Store of version 1 failed: %v", err)
		}
	}
	cl2, c2 := e.client("writer2")
	var mu sync.Mutex
	var sofar int64
	var hit *fsx.Op
	e.box.Backend.FaultAt = func(op *fsx.Op, _ int64) *fsx.Fault {
		if op.Client != "writer2" || !isTransferWrite(op, e) {
			return nil
		}
		mu.Lock()
		defer mu.Unlock()
		if hit != nil {
			return nil
		}
		if sofar+int64(op.Len) <= c.At {
			sofar += int64(op.Len)
			return nil
		}
		cp := *op
		hit = &cp
		return &fsx.Fault{Kind: "torn", Keep: int(c.At - sofar)}
	}
	var serr error
	done := make(chan struct{})
	go func() {
		defer close(done)
		defer func() {
			if r := recover(); r != nil {
				serr = fmt.Errorf("PANIC %v", r)
			}
		}()
		serr = c2.Store(ctx, key, e.srcDir[2])
	}()
	select {
	case <-done:
	case <-time.After(30 * time.Second):
		ev.Fail(t, prop, test, c, "the interrupted Store did not return within 30 s")
	}
	if serr != nil && strings.HasPrefix(serr.Error(), "PANIC") {
		ev.Fail(t, prop, test, c, "Store panicked: %v", serr)
	}
	mu.Lock()
	h := hit
	mu.Unlock()
	if h == nil {
		return "the whole package reached the remote storage"
	}
	cl2.Revoke()
	time.Sleep(5 * time.Millisecond)
	e.ageLock()
	_, reader := e.client("reader")
	_ = reader.CleanEntry(ctx, key)
	dest := e.box.Path("dest")
	var ferr error
	ev.Guard(t, prop, test, c, func() { ferr = reader.Fetch(ctx, key, dest) })
	what := fmt.Sprintf("the Store of version 2 was stopped when %d bytes of its package had reached the remote storage (inside %s)", c.At, strings.ReplaceAll(h.String(), e.box.Root, ""))
	if ferr == nil {
		id, detail := identify(e.box, dest, e.versions, e.sources)
		if id < 0 {
			ev.Fail(t, prop, test, c, "Fetch reported success but the destination is not one complete stored version (%s). %s", detail, what)
		}
		ev.Class(fmt.Sprintf("fetch-after-torn-write: version %d", id))
		// and it stays that way for the next client
		_, reader2 := e.client("reader2")
		dest2 := e.box.Path("dest2")
		if err := reader2.Fetch(ctx, key, dest2); err == nil {
			if id2, detail := identify(e.box, dest2, e.versions, e.sources); id2 < 0 {
				ev.Fail(t, prop, test, c, "a second Fetch reported success but the destination is not one complete stored version (%s). %s", detail, what)
			}
		}
	} else {
		ev.Class("fetch-after-torn-write: error")
	}
	return ""
}

// TestTornTransfer: every crash point of the transfer on a grid of byte offsets x {first store of the key, second} x cache kind.
func TestTornTransfer(t *testing.T) {
	shard, shards := ev.Shard()
	stride := int64(89)
	if ev.Thorough() {
		stride = 1 // every byte offset
	}
	var n, nt int64
	i := 0
	for _, combo := range [][2]string{{"os", "mutable"}, {"mem", "immutable"}} {
		for _, first := range []bool{true, false} {
			for _, shape := range [][2]int{{3000, 20000}, {700, 2500}} {
				base := TornCase{Backend: combo[0], Cache: combo[1], First: first, Inner: shape[0], Pad: shape[1]}
				total := measureTransfer(base)
				ev.MetricMax(fmt.Sprintf("bytes-of-a-transfer/%s/%d", combo[1], shape[0]), float64(total))
				for at := int64(0); at < total; at += stride {
					i++
					if i%shards != shard {
						continue
					}
					c := base
					c.At = at
					if s := checkTorn(t, "TestTornTransfer", c); s == "" {
						n++
						if at > 0 {
							nt++
						}
					}
				}
			}
		}
	}
	ev.Bulk(n, nt, "torn-transfer")
	ev.Sample(TornCase{Backend: "os", Cache: "mutable", First: true, Inner: 3000, Pad: 20000, At: 23392})
	ev.Exhaustive(fmt.Sprintf("every %d-th byte offset of the transfer of a package as crash point x {first, second store of the key} x {mutable, immutable}", stride))
}

func init() {
	ev.RegisterReplay("TestTornTransfer", func(t ev.T, raw json.RawMessage) {
		var c TornCase
		if err := json.Unmarshal(raw, &c); err != nil {
			t.Fatalf("HARNESS: %v", err)
		}
		if s := checkTorn(t, "TestTornTransfer", c); s != "" {
			t.Fatalf("HARNESS: replay skipped: %s", s)
		}
	})
}
