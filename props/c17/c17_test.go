// Package c17 decides C17: stale-lock detection is sound — live locks are safe, dead ones recover.
package c17

import (
	"context"
	"encoding/json"
	"fmt"
	"os"
	"path/filepath"
	"sort"
	"strings"
	"sync"
	"sync/atomic"
	"syscall"
	"testing"
	"time"

	"pgregory.net/rapid"

	"github.com/ARM-software/golang-utils/utils/filesystem"

	"verif/internal/ev"
	"verif/internal/fsbox"
	"verif/internal/fsx"
)

const prop = "C17"

const period = 50 * time.Millisecond // heart-beat period of the lock (fixed in the library)
// allowance for what happens between the instant the observer's probe is served and the instant it evaluates the
// age of what it read (its own goroutine may be held up under load), plus clock / mtime granularity
const margin = 30 * time.Millisecond

func TestMain(m *testing.M) { ev.Main(m) }

type Observer struct {
	Action    string `json:"action"` // isstale | releaseifstale | trylock | trylock-override
	CadenceMs int    `json:"cadence_ms"`
}

type Case struct {
	Backend    string     `json:"backend"`
	Acquire    string     `json:"acquire"`      // trylock | lock | lockwithtimeout
	Periods    int        `json:"hold_periods"` // how long the holder holds
	Observers  []Observer `json:"observers"`
	Load       int        `json:"load"`         // 0 none, 1 light, 2 heavy (I/O writers in the same tree + busy goroutines)
	DieAtOp    int        `json:"die_at_op"`    // >0: the holder's handle is revoked at its n-th backend operation (acquire sequence: 1..8)
	DieAfterMs int        `json:"die_after_ms"` // >0: ... or after this delay in steady state
	// SlowWriteMs holds every heart-beat write of the holder up for that long (what a loaded disk does), deterministically
	SlowWriteMs int `json:"slow_heartbeat_write_ms,omitempty"`
	// Reacquire: the holder first acquires and releases the lock once with the same lock object, then acquires it again
	// (the acquisition that is observed): a lock object is not a one-shot thing
	Reacquire bool `json:"reacquire_with_same_object,omitempty"`
	// LateStampMs (with Reacquire): the time stamp the heart-beat of the FIRST acquisition was about to set when the lock got
	// released is held up by that much (a slow disk, a remote filesystem): whether it then lands in the second acquisition
	LateStampMs int `json:"stamp_of_the_first_acquisition_held_up_ms,omitempty"`
	// ObsStatFailsEvery: every n-th stat of the heart-beat file by an observer fails with a transient I/O error (what a
	// network share does now and then): not being able to read the age of a sign of life is no evidence of death
	ObsStatFailsEvery int `json:"observer_stat_fails_every,omitempty"`
	// ObserverID: how the observers (and whoever recovers the lock of a dead holder) spell the lock's identifier: the
	// library trims identifiers, so "L", " L" and "L\n" designate one lock
	ObserverID string `json:"observer_id_spelling,omitempty"`
	// HolderReattempt: a third of the way through the hold the holder calls an acquire function on its own lock object
	// again (a lock object shared by two goroutines of one process): it fails, and the lock it holds stays alive
	HolderReattempt string `json:"holder_reattempt,omitempty"` // "" | trylock | lockwithtimeout
	// OddNames: the identifier of the lock and the directory it lives in contain characters that mean something to a
	// pattern matcher (brackets, braces, a star): they are names like any other
	OddNames bool `json:"names_with_pattern_characters,omitempty"`
}

// beat is one heart-beat of the holder: start = its open was issued, end = its time stamp (chtimes) was completed;
// idleBefore = time between the completion of the previous heart-beat's last operation and this open being issued (what
// the library slept: operations themselves may be held up by the disk for any length of time).
type beat struct {
	start, end time.Time
	written    time.Time // completion of the write of its content: the time stamp set afterwards cannot legitimately be older
	idleBefore time.Duration
}

type world struct {
	mu         sync.Mutex
	hbPath     string
	lockDir    string
	beats      []beat                 // completed heart-beats of the holder (chtimes returned successfully)
	dirStamp   time.Time              // completion of the holder's stamp of the lock directory (no heart-beat yet)
	lastStat   map[string]time.Time   // per observer: when its latest stat of the heart-beat file (or of the directory) was served
	removed    map[string][]time.Time // per client: successful removals of the lock directory
	opens      map[int64]time.Time
	frozen     map[string]bool
	lastDetail map[string]string
	lastProbe  map[string]probe
	lastHBOp   time.Time // completion of the holder's latest operation on the heart-beat file
	// handles: a write through a handle opened before the acquisition under observation (the writer of an earlier
	// acquisition by the same object, finishing late) goes to a file that has been unlinked since: it is no sign of life
	maxHandle, minHandle int64
}

// probe is what an observer's decisive stat was served with.
type probe struct {
	start time.Time // when the stat was issued
	mod   time.Time // modification time it reported
	onDir bool
}

func (w *world) after(op *fsx.Op) {
	now := time.Unix(0, op.End)
	w.mu.Lock()
	defer w.mu.Unlock()
	if op.Handle > w.maxHandle {
		w.maxHandle = op.Handle
	}
	if op.Client == "holder" && op.Handle != 0 && op.Handle < w.minHandle {
		return
	}
	switch {
	case op.Client == "holder" && op.Path == w.hbPath && op.Kind == "openfile":
		// start of a heart-beat
		w.opens[op.Seq] = time.Unix(0, op.Start)
		b := beat{start: time.Unix(0, op.Start)}
		if !w.lastHBOp.IsZero() {
			b.idleBefore = b.start.Sub(w.lastHBOp)
		}
		w.beats = append(w.beats, b)
		w.lastHBOp = now
	case op.Client == "holder" && op.Path == w.hbPath && op.Kind == "chtimes":
		// the sign of life is complete once its time stamp has been set: until then the file may still carry the
		// time at which a (possibly long) write began
		if n := len(w.beats); n > 0 && w.beats[n-1].end.IsZero() && op.Err == "" {
			w.beats[n-1].end = now
		}
		w.lastHBOp = now
	case op.Client == "holder" && op.Path == w.hbPath:
		if (op.Kind == "write" || op.Kind == "writestring") && op.Err == "" {
			if n := len(w.beats); n > 0 && w.beats[n-1].end.IsZero() {
				w.beats[n-1].written = now
			}
		}
		w.lastHBOp = now
	case op.Client == "holder" && op.Path == w.lockDir && op.Kind == "chtimes" && op.Err == "":
		w.dirStamp = now
	case op.Client != "holder" && op.Path == w.lockDir && op.Kind == "lstat":
		// the removal of the lock directory (Unlock -> Rm) starts with an lstat of it: what comes after is not a staleness probe
		w.frozen[op.Client] = true
	case op.Client != "holder" && (op.Path == w.hbPath || op.Path == w.lockDir) && op.Kind == "stat":
		// the decisive probe of a call is the last one before the call starts removing anything
		if !w.frozen[op.Client] {
			w.lastStat[op.Client] = now
			w.lastProbe[op.Client] = probe{start: time.Unix(0, op.Start), mod: time.Unix(0, op.ModTime), onDir: op.Path == w.lockDir}
			w.lastDetail[op.Client] = fmt.Sprintf("%s %s served with mtime %v old (%s)", op.Kind, filepath.Base(op.Path), now.Sub(time.Unix(0, op.ModTime)).Round(time.Millisecond), op.Err)
		}
	case (op.Kind == "remove" || op.Kind == "removeall") && strings.HasPrefix(op.Path, w.lockDir):
		w.frozen[op.Client] = true
		if op.Path == w.lockDir && op.Err == "" {
			w.removed[op.Client] = append(w.removed[op.Client], now)
		}
	}
}

// lastSignOfLife returns, for the newest heart-beat completed (content written and time stamp set) not after t, the instant
// at which its content had been written - the stamp it carries cannot legitimately be older than that; setting the stamp
// may itself be held up by the disk, which is the machine's doing - or the directory stamp if there is no such heart-beat.
func (w *world) lastSignOfLife(t time.Time) time.Time {
	w.mu.Lock()
	defer w.mu.Unlock()
	c := w.dirStamp
	var newest time.Time
	for _, b := range w.beats {
		if !b.end.IsZero() && !b.end.After(t) && b.end.After(newest) {
			newest = b.end
			c = b.written
			if c.IsZero() {
				c = b.end
			}
		}
	}
	return c
}

type verdict struct {
	by    string
	what  string
	at    time.Time // when the observer's decisive stat was served
	after time.Time // when the call returned
	probe probe
	plain bool // an acquisition that removed nothing itself (TryLock without override, or with it but finding no directory): it judges nothing, it only succeeds when the directory is gone
}

func startLoad(box *fsbox.Box, level int, stop <-chan struct{}, dir string) *sync.WaitGroup {
	var wg sync.WaitGroup
	if level == 0 {
		return &wg
	}
	writers, spinners := 2, 1
	if level == 2 {
		writers, spinners = 6, 2
	}
	for i := 0; i < writers; i++ {
		wg.Add(1)
		go func(i int) {
			defer wg.Done()
			buf := make([]byte, 64*1024)
			p := filepath.Join(dir, fmt.Sprintf("noise-%d.bin", i))
			for {
				select {
				case <-stop:
					return
				default:
				}
				f, err := box.Raw.Create(p)
				if err == nil {
					for k := 0; k < 8; k++ {
						_, _ = f.Write(buf)
					}
					_ = f.Close()
				}
				_ = box.Raw.Remove(p)
			}
		}(i)
	}
	for i := 0; i < spinners; i++ {
		wg.Add(1)
		go func() {
			defer wg.Done()
			x := 0
			for {
				select {
				case <-stop:
					return
				default:
					for k := 0; k < 5000; k++ {
						x += k
					}
				}
			}
		}()
	}
	return &wg
}

// checkCase runs one case. A holder without any heart-beat attempt is only *suspected* by a single run (on an overloaded
// machine a freshly created goroutine may not run for a fifth of a second while the stall monitor's timer-driven one
// does): the case is then run again, and only a suspicion confirmed three times in a row is a finding.
func checkCase(t ev.T, test string, c Case) {
	if !runCase(t, test, c, false) {
		return
	}
	if runCase(t, test, c, false) {
		runCase(t, test, c, true)
	}
}

func runCase(t ev.T, test string, c Case, confirmed bool) (suspectNoHeartBeat bool) {
	box := fsbox.New(c.Backend)
	defer box.Close()
	lockID, dirName := "L", "locks"
	if c.OddNames {
		lockID, dirName = "L[1]{a,b}*", "lo[c]ks"
		ev.Class("identifier and directory with pattern characters")
	}
	dir := box.Path(dirName)
	_ = box.Raw.MkdirAll(dir, 0o755)
	w := &world{lockDir: filepath.Join(dir, filesystem.LockFilePrefix+"-"+lockID), lastStat: map[string]time.Time{}, removed: map[string][]time.Time{}, opens: map[int64]time.Time{}, frozen: map[string]bool{}, lastDetail: map[string]string{}, lastProbe: map[string]probe{}}
	w.hbPath = filepath.Join(w.lockDir, lockID+".lock")
	box.Backend.KeepOps(false)
	box.Backend.After = w.after
	var hbIssued atomic.Int64 // heart-beat writes the holder has at least begun (counted when issued, whatever the disk does next)
	var lastIssued atomic.Int64 // when the latest of them was issued
	var lateOnce atomic.Bool
	box.Backend.Before = func(op *fsx.Op) {
		if c.Reacquire && c.LateStampMs > 0 && op.Client == "holder" && op.Path == w.hbPath && op.Kind == "chtimes" && lateOnce.CompareAndSwap(false, true) {
			time.Sleep(time.Duration(c.LateStampMs) * time.Millisecond)
		}
		if op.Client == "holder" && op.Path == w.hbPath && op.Kind == "openfile" {
			hbIssued.Add(1)
			lastIssued.Store(time.Now().UnixNano())
			// (the open is held up rather than the write: opening with O_TRUNC already refreshes the kernel's time stamp)
			if c.SlowWriteMs > 0 {
				time.Sleep(time.Duration(c.SlowWriteMs) * time.Millisecond)
			}
		}
	}
	hClient, hFS := box.NewClient("holder")
	var holderOps atomic.Int64
	var diedAt atomic.Int64
	var armed atomic.Bool // death points count from the observed acquisition on
	armed.Store(!c.Reacquire)
	if c.DieAtOp > 0 || c.ObsStatFailsEvery > 0 {
		obsStats := map[string]int{} // (FaultAt runs under the backend's lock)
		box.Backend.FaultAt = func(op *fsx.Op, _ int64) *fsx.Fault {
			if c.DieAtOp > 0 && op.Client == "holder" && diedAt.Load() == 0 && armed.Load() {
				if holderOps.Add(1) == int64(c.DieAtOp) {
					diedAt.Store(time.Now().UnixNano())
					return &fsx.Fault{Kind: "revoke"}
				}
			}
			if c.ObsStatFailsEvery > 0 && strings.HasPrefix(op.Client, "obs") && op.Kind == "stat" && op.Path == w.hbPath {
				obsStats[op.Client]++
				if obsStats[op.Client]%c.ObsStatFailsEvery == 0 {
					ev.Class("an observer's stat of the heart-beat file failed (injected)")
					return &fsx.Fault{Kind: "error", Err: syscall.EIO}
				}
			}
			return nil
		}
	}
	stopLoad := make(chan struct{})
	loadWG := startLoad(box, c.Load, stopLoad, dir)
	defer func() { close(stopLoad); loadWG.Wait() }()

	life, endLife := context.WithCancel(context.Background())
	defer endLife()
	var maxGap atomic.Int64 // stall monitor: largest scheduling gap seen by a 2 ms ticker of this process
	go func() {
		last := time.Now()
		for life.Err() == nil {
			time.Sleep(2 * time.Millisecond)
			now := time.Now()
			if g := int64(now.Sub(last)); g > maxGap.Load() {
				maxGap.Store(g)
			}
			last = now
		}
	}()
	holder := filesystem.NewGenericRemoteLockFile(hFS.(*filesystem.VFS), lockID, dir, false)
	obsID := lockID
	if c.ObserverID != "" && !c.OddNames {
		obsID = c.ObserverID
		ev.Class("observers spell the identifier differently")
	}
	if c.Reacquire {
		if err := holder.TryLock(life); err != nil {
			ev.Fail(t, prop, test, c, "the holder could not acquire a free lock (first acquisition): %v", err)
		}
		time.Sleep(3 * time.Millisecond)
		uctx, ucancel := context.WithTimeout(context.Background(), 5*time.Second)
		uerr := holder.Unlock(uctx)
		ucancel()
		if uerr != nil {
			ev.Fail(t, prop, test, c, "the holder could not release its lock (first acquisition): %v", uerr)
		}
		time.Sleep(2 * time.Millisecond)
		// forget what was recorded about the first acquisition
		w.mu.Lock()
		w.beats, w.dirStamp, w.lastHBOp = nil, time.Time{}, time.Time{}
		w.minHandle = w.maxHandle + 1
		w.mu.Unlock()
		holderOps.Store(0)
		hbIssued.Store(0)
		armed.Store(true)
	}
	acquireBegan := time.Now()
	var herr error
	switch c.Acquire {
	case "lock":
		herr = holder.Lock(life)
	case "lockwithtimeout":
		herr = holder.LockWithTimeout(life, 2*time.Second)
	default:
		herr = holder.TryLock(life)
	}
	acquired := time.Now()
	if herr != nil && diedAt.Load() == 0 {
		ev.Fail(t, prop, test, c, "the holder could not acquire a free lock: %v", herr)
	}
	holdFor := time.Duration(c.Periods) * period
	var releasing atomic.Int64 // unix nanos at which the holder began to release (0 = still holding)
	if c.DieAfterMs > 0 {
		time.AfterFunc(time.Duration(c.DieAfterMs)*time.Millisecond, func() {
			if diedAt.CompareAndSwap(0, time.Now().UnixNano()) {
				hClient.Revoke()
			}
		})
	}
	// observers
	var vmu sync.Mutex
	var verdicts []verdict
	polls := atomic.Int64{}
	stopObs := make(chan struct{})
	var owg sync.WaitGroup
	for i, o := range c.Observers {
		name := fmt.Sprintf("obs%d", i+1)
		_, ofs := box.NewClient(name)
		lock := filesystem.NewGenericRemoteLockFile(ofs.(*filesystem.VFS), obsID, dir, o.Action == "trylock-override")
		owg.Add(1)
		go func(o Observer, name string) {
			defer owg.Done()
			for {
				select {
				case <-stopObs:
					return
				case <-time.After(time.Duration(o.CadenceMs) * time.Millisecond):
				}
				polls.Add(1)
				octx, ocancel := context.WithTimeout(context.Background(), 2*time.Second)
				what := ""
				w.mu.Lock()
				removedBefore := len(w.removed[name])
				w.frozen[name] = false
				delete(w.lastStat, name)
				delete(w.lastProbe, name)
				w.mu.Unlock()
				switch o.Action {
				case "isstale":
					if lock.IsStale() {
						what = "IsStale() returned true"
					}
				case "releaseifstale":
					_ = lock.ReleaseIfStale(octx)
				default:
					if err := lock.TryLock(octx); err == nil {
						what = "TryLock() took the lock over"
						// an observer that acquired gives the lock back at once
						defer func() { _ = lock.Unlock(context.Background()) }()
					}
				}
				w.mu.Lock()
				removedByMe := len(w.removed[name]) > removedBefore
				if removedByMe && what == "" {
					what = "removed the lock directory (" + o.Action + ")"
				}
				at := w.lastStat[name]
				detail := w.lastDetail[name]
				pr := w.lastProbe[name]
				w.mu.Unlock()
				ocancel()
				if what != "" {
					vmu.Lock()
					verdicts = append(verdicts, verdict{by: name, what: what + " [decisive probe: " + detail + "]", at: at, after: time.Now(), probe: pr, plain: o.Action == "trylock" || (strings.HasPrefix(what, "TryLock") && !removedByMe)})
					vmu.Unlock()
					if strings.HasPrefix(what, "TryLock") {
						return
					}
				}
			}
		}(o, name)
	}
	// hold, then release (unless dead)
	deadline := acquired.Add(holdFor)
	reattemptAt := acquired.Add(holdFor / 3)
	for time.Now().Before(deadline) {
		if c.HolderReattempt != "" && diedAt.Load() == 0 && time.Now().After(reattemptAt) {
			reattemptAt = deadline.Add(time.Hour)
			var rerr error
			if c.HolderReattempt == "lockwithtimeout" {
				rerr = holder.LockWithTimeout(life, 15*time.Millisecond)
			} else {
				rerr = holder.TryLock(life)
			}
			// (nothing is asserted about its result: after a legitimate stale verdict - a starved heart-beat - the lock may be gone)
			_ = rerr
			ev.Class("the holder tried to acquire again while holding")
		}
		time.Sleep(2 * time.Millisecond)
		vmu.Lock()
		n := len(verdicts)
		vmu.Unlock()
		if n > 0 {
			break
		}
	}
	dead := diedAt.Load() != 0
	if !dead {
		releasing.Store(time.Now().UnixNano())
	}
	// judge the verdicts given while the holder was alive and had not begun to release
	vmu.Lock()
	vs := append([]verdict{}, verdicts...)
	vmu.Unlock()
	sort.Slice(vs, func(i, j int) bool { return vs[i].after.Before(vs[j].after) })
	type finding struct{ msg string }
	var findings []finding
	inconclusive := false
	for _, v := range vs {
		if d := diedAt.Load(); d != 0 && !v.after.Before(time.Unix(0, d)) {
			ev.Class("stale-verdict-on-dead-holder(expected)")
			continue
		}
		if r := releasing.Load(); r != 0 && !v.after.Before(time.Unix(0, r)) {
			continue
		}
		if v.plain {
			continue // consequence of somebody else's removal
		}
		if c.Reacquire && !v.probe.start.IsZero() && v.probe.start.Before(acquireBegan) {
			// the decisive probe was served before the acquisition under observation even began: the verdict is about the
			// previous generation of the lock (which was being released); a removal decided then and landing on the new
			// generation is the protocol race listed as C01-KF-b, not a question of staleness
			ev.Class("verdict decided on the previous generation of the lock (not judged here; C01-KF-b)")
			continue
		}
		if v.probe.start.IsZero() {
			if strings.HasPrefix(v.what, "removed the lock directory") {
				findings = append(findings, finding{fmt.Sprintf("%s: %s without having probed the lock for staleness at all", v.by, v.what)})
			} else {
				inconclusive = true
			}
			continue
		}
		// newest sign of life completed before the probe was even issued
		c0 := w.lastSignOfLife(v.probe.start)
		switch {
		case !v.probe.onDir && c0.Sub(v.probe.mod) > margin:
			findings = append(findings, finding{fmt.Sprintf("%s: %s: the heart-beat file carried a stamp %v older than a heart-beat that had already been written when the probe was issued", v.by, v.what, c0.Sub(v.probe.mod).Round(time.Millisecond))})
		case v.probe.start.Sub(v.probe.mod) > 2*period-margin:
			ev.Class("stale-verdict-after-heart-beat-starvation(not judged)")
			inconclusive = true
		case v.after.Sub(v.probe.mod) <= 2*period-margin:
			findings = append(findings, finding{fmt.Sprintf("%s: %s although what it read was only %v old when the call returned (two periods = %v)", v.by, v.what, v.after.Sub(v.probe.mod).Round(time.Millisecond), 2*period)})
		default:
			ev.Class("stale-verdict-observer-held-up-between-probe-and-evaluation(not judged)")
			inconclusive = true
		}
	}
	// "while the holder is alive ... the heartbeat is refreshed every period". A single long gap cannot be told apart from
	// the machine holding one goroutine up (disk stalls inside an operation are excluded by measuring only the idle time
	// between operations, scheduling stalls by the monitor, but a page fault of this goroutine alone is invisible): the
	// clause is judged on the *shortest* idle time of a run of at least four heart-beats - if even the quickest of them
	// overshoots the period by 30 ms, the library, not the machine, is late.
	if !dead && c.Load == 0 && c.SlowWriteMs == 0 && time.Duration(maxGap.Load()) < 15*time.Millisecond && len(findings) == 0 {
		w.mu.Lock()
		shortest, n, longest := time.Duration(0), 0, time.Duration(0)
		for i := 1; i < len(w.beats); i++ {
			if r := releasing.Load(); r != 0 && w.beats[i].start.After(time.Unix(0, r)) {
				break
			}
			g := w.beats[i].idleBefore
			if n == 0 || g < shortest {
				shortest = g
			}
			if g > longest {
				longest = g
			}
			n++
		}
		w.mu.Unlock()
		if longest > period+30*time.Millisecond {
			ev.Class("a heart-beat came late (single gaps are not judged)")
		}
		if n >= 4 && shortest > period+30*time.Millisecond {
			findings = append(findings, finding{fmt.Sprintf("the heart-beat of the live holder is not refreshed every period: over %d consecutive heart-beats the holder never idled less than %v between two of them (period %v), with no load and no scheduling gap above %v", n+1, shortest.Round(time.Millisecond), period, time.Duration(maxGap.Load()).Round(time.Millisecond))})
			inconclusive = false
		}
	}
	// ... and it is there at all: a holder that has been alive for two periods without even beginning to write a sign of life
	// has no heart-beat (this does not depend on the disk: the attempt is counted when it is issued)
	// ... and it does not stop while the holder lives: no attempt issued for two whole periods (plus what a slowed-down write
	// takes) although the process saw no scheduling gap. A stale verdict is the occasion to look: a little later, so that a
	// writer that is merely late has issued its next attempt
	stoppedBeating := false
	if !dead && herr == nil && len(vs) > 0 && hbIssued.Load() > 0 {
		time.Sleep(30 * time.Millisecond)
		silence := time.Since(time.Unix(0, lastIssued.Load()))
		if silence > 2*period+time.Duration(c.SlowWriteMs)*time.Millisecond+10*time.Millisecond && time.Duration(maxGap.Load()) < 15*time.Millisecond {
			stoppedBeating = true
		}
	}
	if stoppedBeating {
		suspectNoHeartBeat = true
		if confirmed {
			findings = append([]finding{{fmt.Sprintf("the heart-beat writer of the live holder has not issued a single write for %v (two periods = %v; third run in a row)", time.Since(time.Unix(0, lastIssued.Load())).Round(time.Millisecond), 2*period)}}, findings...)
			inconclusive = false
		} else {
			ev.Class("the heart-beat writer went silent in one run (to be confirmed)")
		}
	}
	if held := time.Since(acquired); !dead && herr == nil && held >= 2*period-5*time.Millisecond && hbIssued.Load() == 0 && time.Duration(maxGap.Load()) < 15*time.Millisecond {
		suspectNoHeartBeat = true
		if confirmed {
			findings = append([]finding{{fmt.Sprintf("the live holder has held the lock for %v without beginning a single heart-beat write (third run in a row)", held.Round(time.Millisecond))}}, findings...)
			inconclusive = false
		} else {
			ev.Class("no heart-beat attempt seen in one run (to be confirmed)")
		}
	}
	if inconclusive {
		ev.Inconclusive("heart-beat or observer held up for more than a period (machine load)")
	} else if len(findings) > 0 {
		ev.Fail(t, prop, test, c, "%s; the holder is alive and has not begun to release; heart-beats so far: %s", findings[0].msg, w.describeBeats(acquired))
	}
	if !dead {
		uctx, ucancel := context.WithTimeout(context.Background(), 5*time.Second)
		_ = holder.Unlock(uctx)
		ucancel()
		close(stopObs)
		owg.Wait()
		ev.MetricMax("polls_in_one_case", float64(polls.Load()))
		return
	}
	// dead holder: recovery
	close(stopObs)
	owg.Wait()
	td := time.Unix(0, diedAt.Load())
	if now := time.Now(); now.After(td) {
		td = now // the bound runs from the moment somebody starts polling the dead holder's lock
	}
	_, rfs := box.NewClient("recovery")
	fresh := filesystem.NewGenericRemoteLockFile(rfs.(*filesystem.VFS), obsID, dir, false)
	bound := 2*period + time.Second
	var becameStale time.Time
	lockGone := false
	for time.Since(td) < bound+2*time.Second {
		if _, err := box.Raw.Stat(w.lockDir); err != nil {
			lockGone = true // an observer already released / took it over and gave it back
			break
		}
		if fresh.IsStale() {
			becameStale = time.Now()
			break
		}
		time.Sleep(3 * time.Millisecond)
	}
	if !lockGone {
		if becameStale.IsZero() {
			ev.Fail(t, prop, test, c, "the holder died %v ago (at backend operation %d / after %d ms) and its lock is still not reported stale (bound: two periods + 1 s)", time.Since(td).Round(time.Millisecond), c.DieAtOp, c.DieAfterMs)
		}
		if d := becameStale.Sub(td); d > bound {
			ev.Fail(t, prop, test, c, "the lock of the dead holder was reported stale only %v after its death (bound %v)", d, bound)
		}
		ev.MetricMax("stale_after_death_ms", float64(becameStale.Sub(td).Milliseconds()))
	}
	rctx, rcancel := context.WithTimeout(context.Background(), 5*time.Second)
	defer rcancel()
	if err := fresh.ReleaseIfStale(rctx); err != nil {
		ev.Fail(t, prop, test, c, "ReleaseIfStale on the dead holder's lock failed: %v", err)
	}
	var aerr error
	for i := 0; i < 50; i++ { // another observer may hold it for an instant
		if aerr = fresh.TryLock(rctx); aerr == nil {
			break
		}
		time.Sleep(10 * time.Millisecond)
	}
	if aerr != nil {
		ev.Fail(t, prop, test, c, "after the holder's death and ReleaseIfStale a new acquire still fails: %v", aerr)
	}
	_ = fresh.Unlock(rctx)
	ev.Class("dead-holder-recovered")
	return
}

func (w *world) describeBeats(acquired time.Time) string {
	w.mu.Lock()
	defer w.mu.Unlock()
	var s []string
	for _, b := range w.beats {
		if len(s) > 12 {
			s = s[1:]
		}
		e := "unfinished"
		if !b.end.IsZero() {
			e = fmt.Sprintf("%dms", b.end.Sub(acquired).Milliseconds())
		}
		s = append(s, fmt.Sprintf("[%dms..%s]", b.start.Sub(acquired).Milliseconds(), e))
	}
	return strings.Join(s, " ")
}

func genCase(t *rapid.T) Case {
	c := Case{Backend: "os", Acquire: rapid.SampledFrom([]string{"trylock", "lock", "lockwithtimeout"}).Draw(t, "acquire")}
	maxP := 20
	if ev.Thorough() {
		maxP = 300
	}
	c.Periods = rapid.SampledFrom([]int{1, 2, 3, 5, 8, 12, maxP}).Draw(t, "periods")
	if !ev.Thorough() && rapid.IntRange(0, 39).Draw(t, "long-hold") == 0 {
		c.Periods = 110 // "however long it is held": a few holds of more than a hundred periods in the quick tier too
	}
	n := rapid.IntRange(1, 6).Draw(t, "observers")
	for i := 0; i < n; i++ {
		c.Observers = append(c.Observers, Observer{Action: rapid.SampledFrom([]string{"isstale", "isstale", "releaseifstale", "trylock", "trylock-override"}).Draw(t, fmt.Sprintf("act%d", i)),
			CadenceMs: rapid.SampledFrom([]int{1, 1, 2, 5, 11, 20}).Draw(t, fmt.Sprintf("cad%d", i))})
	}
	c.Load = rapid.SampledFrom([]int{0, 1, 1, 2}).Draw(t, "load")
	if rapid.IntRange(0, 4).Draw(t, "slow-writes") == 0 {
		c.SlowWriteMs = rapid.SampledFrom([]int{10, 35, 45}).Draw(t, "slow-write-ms")
	}
	c.Reacquire = rapid.IntRange(0, 3).Draw(t, "reacquire") == 0
	if c.Reacquire && c.Periods >= 4 && rapid.IntRange(0, 2).Draw(t, "late-stamp") == 0 {
		c.LateStampMs = rapid.SampledFrom([]int{30, 80, 130}).Draw(t, "late-stamp-ms")
		if c.SlowWriteMs == 0 {
			c.SlowWriteMs = 10 // the first acquisition is released 3 ms after it was obtained: its first heart-beat is then under way
		}
	}
	c.OddNames = rapid.IntRange(0, 5).Draw(t, "odd-names") == 0
	if rapid.IntRange(0, 5).Draw(t, "obs-id") == 0 {
		c.ObserverID = rapid.SampledFrom([]string{" L", "L ", "L\n", "\tL", " L \n"}).Draw(t, "obs-id-spelling")
	}
	if c.Periods >= 3 && rapid.IntRange(0, 2).Draw(t, "reattempt") == 0 {
		c.HolderReattempt = rapid.SampledFrom([]string{"trylock", "lockwithtimeout"}).Draw(t, "reattempt-kind")
	}
	if rapid.IntRange(0, 4).Draw(t, "obs-stat-faults") == 0 {
		c.ObsStatFailsEvery = rapid.SampledFrom([]int{1, 2, 3, 7, 20}).Draw(t, "obs-stat-fails-every")
	}
	switch rapid.IntRange(0, 3).Draw(t, "death") {
	case 0:
		c.DieAtOp = rapid.IntRange(1, 8).Draw(t, "die-at-op")
	case 1:
		c.DieAfterMs = rapid.IntRange(1, c.Periods*50).Draw(t, "die-after-ms")
	}
	return c
}

func replayCase(t ev.T, raw json.RawMessage) {
	var c Case
	if err := json.Unmarshal(raw, &c); err != nil {
		t.Fatalf("HARNESS: %v", err)
	}
	for i := 0; i < 3; i++ {
		checkCase(t, "TestStaleDetection", c)
	}
}

func init() { ev.RegisterReplay("TestStaleDetection", replayCase) }

func TestReplay(t *testing.T)      { ev.RunReplay(t) }
func TestRegressions(t *testing.T) { ev.Regressions(t, prop) }

func TestStaleDetection(t *testing.T) {
	rapid.Check(t, func(rt *rapid.T) {
		c := genCase(rt)
		key, _ := json.Marshal(c)
		cl := "live"
		if c.DieAtOp > 0 {
			cl = "death-during-acquire"
		} else if c.DieAfterMs > 0 {
			cl = "death-in-steady-state"
		}
		ev.Case(string(key), true, cl+"/"+c.Backend, c)
		checkCase(rt, "TestStaleDetection", c)
	})
}

// TestDeathPoints enumerates every death point of the acquire sequence on both backends.
func TestDeathPoints(t *testing.T) {
	var n int64
	for _, b := range []string{"os", "mem"} {
		for _, acq := range []string{"trylock", "lock", "lockwithtimeout"} {
			for op := 1; op <= 8; op++ {
				checkCase(t, "TestStaleDetection", Case{Backend: b, Acquire: acq, Periods: 3, DieAtOp: op, Observers: []Observer{{Action: "isstale", CadenceMs: 2}}})
				n++
			}
		}
	}
	ev.Bulk(n, n, "death-points-enumerated")
}

var _ = os.Getpid
