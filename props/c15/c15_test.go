// Package c15 decides C15: configuration loading — precedence of sources, then validation.
package c15

import (
	"encoding/json"
	"fmt"
	"os"
	"path/filepath"
	"reflect"
	"sort"
	"strings"
	"testing"
	"time"

	validation "github.com/go-ozzo/ozzo-validation/v4"
	"github.com/spf13/pflag"
	"github.com/spf13/viper"
	"pgregory.net/rapid"

	"github.com/ARM-software/golang-utils/utils/commonerrors"
	"github.com/ARM-software/golang-utils/utils/config"

	"verif/internal/ev"
)

const prop = "C15"

func TestMain(m *testing.M) {
	validation.ErrorTag = "mapstructure"
	ev.Main(m)
}

// ---- the fixed family of structures ------------------------------------------------------------------------------------
// Go cannot build struct types with methods at run time: four hand-written nested types whose tags cover the spellings of
// the quantifier (lower, UPPER, Mixed, with_underscore, with-dash, digit). The required mask is unexported, hence
// invisible to mapstructure.

type Leaves struct {
	Str   string        `mapstructure:"str_value"`
	Num   int           `mapstructure:"NUM"`
	Flag  bool          `mapstructure:"Flagged"`
	Ratio float64       `mapstructure:"ratio1"`
	Wait  time.Duration `mapstructure:"wait-time"`
}

var leafFields = []string{"Str", "Num", "Flag", "Ratio", "Wait"}
var leafTags = []string{"str_value", "NUM", "Flagged", "ratio1", "wait-time"}

func validateLeaves(l *Leaves, owner interface{}, mask uint8) error {
	return validation.ValidateStruct(owner,
		validation.Field(&l.Str, validation.Required.When(mask&1 != 0)),
		validation.Field(&l.Num, validation.Required.When(mask&2 != 0)),
		validation.Field(&l.Flag, validation.Required.When(mask&4 != 0)),
		validation.Field(&l.Ratio, validation.Required.When(mask&8 != 0)),
		validation.Field(&l.Wait, validation.Required.When(mask&16 != 0)),
	)
}

type Cfg1 struct {
	Str   string        `mapstructure:"str_value"`
	Num   int           `mapstructure:"NUM"`
	Flag  bool          `mapstructure:"Flagged"`
	Ratio float64       `mapstructure:"ratio1"`
	Wait  time.Duration `mapstructure:"wait-time"`
	req   uint8
}

func (c *Cfg1) Validate() error {
	return validation.ValidateStruct(c,
		validation.Field(&c.Str, validation.Required.When(c.req&1 != 0)),
		validation.Field(&c.Num, validation.Required.When(c.req&2 != 0)),
		validation.Field(&c.Flag, validation.Required.When(c.req&4 != 0)),
		validation.Field(&c.Ratio, validation.Required.When(c.req&8 != 0)),
		validation.Field(&c.Wait, validation.Required.When(c.req&16 != 0)),
	)
}

// (the nested structure is the last field of Cfg2 and of Cfg3s, a middle field of Cfg3)
type Cfg2 struct {
	req   uint8
	Title string `mapstructure:"title"`
	Limit int    `mapstructure:"Limit2"`
	Sub   Cfg1   `mapstructure:"sub"`
}

func (c *Cfg2) Validate() error {
	if err := config.ValidateEmbedded(c); err != nil {
		return err
	}
	return validation.ValidateStruct(c,
		validation.Field(&c.Title, validation.Required.When(c.req&1 != 0)),
		validation.Field(&c.Limit, validation.Required.When(c.req&2 != 0)),
	)
}

type Cfg3 struct {
	Name  string        `mapstructure:"NAME"`
	Pause time.Duration `mapstructure:"pause"`
	Mid   Cfg2          `mapstructure:"mid-level"`
	req   uint8
}

func (c *Cfg3) Validate() error {
	if err := config.ValidateEmbedded(c); err != nil {
		return err
	}
	return validation.ValidateStruct(c,
		validation.Field(&c.Name, validation.Required.When(c.req&1 != 0)),
		validation.Field(&c.Pause, validation.Required.When(c.req&2 != 0)),
	)
}

type Cfg3s struct {
	req   uint8
	Label string  `mapstructure:"label"`
	Scale float64 `mapstructure:"Scale"`
	Left  Cfg2    `mapstructure:"left"`
	Right Cfg2    `mapstructure:"right_side"`
	Tail  Cfg1    `mapstructure:"tail9"`
}

func (c *Cfg3s) Validate() error {
	if err := config.ValidateEmbedded(c); err != nil {
		return err
	}
	return validation.ValidateStruct(c,
		validation.Field(&c.Label, validation.Required.When(c.req&1 != 0)),
		validation.Field(&c.Scale, validation.Required.When(c.req&2 != 0)),
	)
}

// CfgS: a structure whose nested structure requires a field whatever happens (no mask: a nested structure that received no
// value at all is entirely zero, and is validated all the same).
type CfgInner struct {
	Host string `mapstructure:"host" verif:"required"`
	Port int    `mapstructure:"port"`
}

func (c *CfgInner) Validate() error {
	return validation.ValidateStruct(c, validation.Field(&c.Host, validation.Required))
}

type CfgS struct {
	Name  string   `mapstructure:"name"`
	Inner CfgInner `mapstructure:"inner"`
}

func (c *CfgS) Validate() error { return config.ValidateEmbedded(c) }

// leafInfo describes one leaf of a family by reflection.
type leafInfo struct {
	GoPath  []string // Go field names from the root
	TagPath []string // mapstructure tags from the root
	Kind    reflect.Kind
	IsDur   bool
	Index   [][]int
	ReqBit  uint8    // bit in the owner's mask
	Owner   []string // Go path of the owning struct
	Static  bool     // required whatever the case says (tag verif:"required")
}

func leavesOf(t reflect.Type, goPath, tagPath []string) []leafInfo {
	var out []leafInfo
	bit := uint8(1)
	for i := 0; i < t.NumField(); i++ {
		f := t.Field(i)
		if !f.IsExported() {
			continue
		}
		tag := f.Tag.Get("mapstructure")
		gp := append(append([]string{}, goPath...), f.Name)
		tp := append(append([]string{}, tagPath...), tag)
		if f.Type.Kind() == reflect.Struct {
			out = append(out, leavesOf(f.Type, gp, tp)...)
			continue
		}
		out = append(out, leafInfo{GoPath: gp, TagPath: tp, Kind: f.Type.Kind(), IsDur: f.Type == reflect.TypeOf(time.Duration(0)), ReqBit: bit, Owner: goPath, Static: f.Tag.Get("verif") == "required"})
		bit <<= 1
	}
	return out
}

func newFamily(name string) config.IServiceConfiguration {
	switch name {
	case "depth1":
		return &Cfg1{}
	case "depth2":
		return &Cfg2{}
	case "depth3":
		return &Cfg3{}
	case "static-nested":
		return &CfgS{}
	default:
		return &Cfg3s{}
	}
}

var families = []string{"depth1", "depth2", "depth3", "depth3-siblings", "static-nested"}

func (l leafInfo) get(root reflect.Value) reflect.Value {
	v := root.Elem()
	for _, n := range l.GoPath {
		v = v.FieldByName(n)
	}
	return v
}

func setReq(root reflect.Value, owner []string, mask uint8) {
	v := root.Elem()
	for _, n := range owner {
		v = v.FieldByName(n)
	}
	f := v.FieldByName("req")
	// unexported: set through unsafe-free trick - the structs live in this package, so use a typed switch
	switch p := v.Addr().Interface().(type) {
	case *Cfg1:
		p.req = mask
	case *Cfg2:
		p.req = mask
	case *Cfg3:
		p.req = mask
	case *Cfg3s:
		p.req = mask
	}
	_ = f
}

// ---- cases --------------------------------------------------------------------------------------------------------------------

type LeafPlan struct {
	Sources   []string `json:"sources"`    // subset of flag, env, file, default
	FlagBound bool     `json:"flag_bound"` // a flag is bound to the leaf (set only if "flag" is among the sources)
	Required  bool     `json:"required"`
	// ZeroFlag: the flag is set explicitly on the command line to the zero value of the field (--ratio=0, --wait=0s,
	// --name=, --on=false): an explicit flag wins whatever its value
	ZeroFlag bool `json:"flag_set_to_zero,omitempty"`
	// TwoFlags: two flags with different non-zero default values are bound to the field through BindFlagsToEnv; the first
	// one is set on the command line; OwnDefault: to a value equal to its own default (still an explicit choice)
	TwoFlags   bool `json:"two_flags_bound,omitempty"`
	OwnDefault bool `json:"flag_set_to_its_own_default,omitempty"`
	// FlagDefault: the (single) bound flag has a non-zero default of its own, different from every other value: a flag that
	// is not set on the command line is no source of the list, whatever its default
	FlagDefault bool `json:"flag_has_its_own_default,omitempty"`
}

type Case struct {
	Family string     `json:"family"`
	Prefix string     `json:"prefix"`
	File   string     `json:"file_format"` // json | yaml
	Leaves []LeafPlan `json:"leaves"`      // in the order of leavesOf
}

var prefixes = []string{"app", "APP", "My_App", "my-app", "svc9", "app_", "my_app", "", "str", "n"}

func genCase(t *rapid.T) Case {
	c := Case{Family: rapid.SampledFrom(families).Draw(t, "family"), Prefix: rapid.SampledFrom(prefixes).Draw(t, "prefix"), File: rapid.SampledFrom([]string{"json", "yaml"}).Draw(t, "file")}
	ls := leavesOf(reflect.TypeOf(newFamily(c.Family)).Elem(), nil, nil)
	for i := range ls {
		var p LeafPlan
		for _, s := range []string{"flag", "env", "file", "default"} {
			if rapid.IntRange(0, 2).Draw(t, fmt.Sprintf("l%d-%s", i, s)) == 0 {
				p.Sources = append(p.Sources, s)
			}
		}
		p.FlagBound = contains(p.Sources, "flag") || rapid.IntRange(0, 3).Draw(t, fmt.Sprintf("l%d-bound", i)) == 0
		p.Required = rapid.IntRange(0, 3).Draw(t, fmt.Sprintf("l%d-req", i)) == 0
		if c.Family == "static-nested" {
			p.Required = ls[i].Static
		}
		p.ZeroFlag = contains(p.Sources, "flag") && rapid.IntRange(0, 5).Draw(t, fmt.Sprintf("l%d-zeroflag", i)) == 0
		if contains(p.Sources, "flag") && !p.ZeroFlag && ls[i].Kind != reflect.Bool && rapid.IntRange(0, 5).Draw(t, fmt.Sprintf("l%d-twoflags", i)) == 0 {
			p.TwoFlags = true
			p.OwnDefault = rapid.Bool().Draw(t, fmt.Sprintf("l%d-owndefault", i))
		}
		if p.FlagBound && !p.TwoFlags && ls[i].Kind != reflect.Bool && rapid.IntRange(0, 3).Draw(t, fmt.Sprintf("l%d-flagdefault", i)) == 0 {
			p.FlagDefault = true
		}
		c.Leaves = append(c.Leaves, p)
	}
	// one nested structure may be left without any value at all (no source for any of its fields, no flag): it is still
	// validated, and a required field of it is reported
	if rapid.IntRange(0, 4).Draw(t, "empty-nested") == 0 {
		var nested []int
		for i := range ls {
			if len(ls[i].Owner) > 0 {
				nested = append(nested, i)
			}
		}
		if len(nested) > 0 {
			pick := ls[nested[rapid.IntRange(0, len(nested)-1).Draw(t, "which-nested")]].Owner
			own := strings.Join(pick, ".")
			first := true
			for i := range ls {
				o := strings.Join(ls[i].Owner, ".")
				if o == own || strings.HasPrefix(o, own+".") {
					c.Leaves[i] = LeafPlan{Required: (first && o == own && c.Family != "static-nested") || ls[i].Static}
					if o == own {
						first = false
					}
				}
			}
		}
	}
	return c
}

func contains(l []string, s string) bool {
	for _, x := range l {
		if x == s {
			return true
		}
	}
	return false
}

var rank = map[string]int{"flag": 0, "env": 1, "file": 2, "default": 3}

// value of source s for leaf i: distinct per source, type appropriate, non-zero (booleans: the winner is true).
func valueFor(l leafInfo, i int, s string, winner bool) interface{} {
	k := rank[s] + 1
	switch {
	case l.IsDur:
		return time.Duration(k*1000+i) * time.Millisecond
	case l.Kind == reflect.String:
		return fmt.Sprintf("%s-value-%d", s, i)
	case l.Kind == reflect.Int:
		return k*1000 + i
	case l.Kind == reflect.Float64:
		return float64(k) + float64(i)/100 + 0.5
	case l.Kind == reflect.Bool:
		return winner
	}
	return nil
}

func asString(v interface{}) string {
	if d, ok := v.(time.Duration); ok {
		return d.String()
	}
	return fmt.Sprint(v)
}

func envName(prefix string, l leafInfo) string {
	if prefix == "" {
		return strings.ToUpper(strings.Join(l.TagPath, "_"))
	}
	return strings.ToUpper(prefix + "_" + strings.Join(l.TagPath, "_"))
}

func (c Case) nontrivial() bool {
	for _, p := range c.Leaves {
		if len(p.Sources) >= 2 {
			return true
		}
	}
	return false
}

var envSet []string

func clearEnv() {
	for _, n := range envSet {
		_ = os.Unsetenv(n)
	}
	envSet = nil
}

func setEnv(n, v string) {
	envSet = append(envSet, n)
	_ = os.Setenv(n, v)
}

func checkCase(t ev.T, test string, c Case) {
	clearEnv()
	defer clearEnv()
	ls := leavesOf(reflect.TypeOf(newFamily(c.Family)).Elem(), nil, nil)
	if len(ls) != len(c.Leaves) {
		t.Fatalf("HARNESS: %d leaves, %d plans", len(ls), len(c.Leaves))
	}
	defaults := newFamily(c.Family)
	target := newFamily(c.Family)
	dv, tv := reflect.ValueOf(defaults), reflect.ValueOf(target)
	fileTree := map[string]interface{}{}
	session := viper.New()
	flags := pflag.NewFlagSet("c15", pflag.ContinueOnError)
	expected := make([]interface{}, len(ls))
	masks := map[string]uint8{}
	// the names the library reports
	reported, derr := config.DetermineConfigurationEnvironmentVariables(c.Prefix, newFamily(c.Family))
	if derr != nil {
		// an all-zero structure counts as "empty" for the library: use one with a non-zero leaf
		probe := newFamily(c.Family)
		ls[0].get(reflect.ValueOf(probe)).Set(reflect.ValueOf(valueFor(ls[0], 0, "default", true)))
		reported, derr = config.DetermineConfigurationEnvironmentVariables(c.Prefix, probe)
	}
	if derr != nil {
		ev.Fail(t, prop, test, c, "DetermineConfigurationEnvironmentVariables failed: %v", derr)
	}
	var wantNames, gotNames []string
	for _, l := range ls {
		wantNames = append(wantNames, envName(c.Prefix, l))
	}
	for n := range reported {
		gotNames = append(gotNames, n)
	}
	sort.Strings(wantNames)
	sort.Strings(gotNames)
	if strings.Join(wantNames, ",") != strings.Join(gotNames, ",") {
		ev.Fail(t, prop, test, c, "environment variable names reported %v, want one per field: %v", gotNames, wantNames)
	}
	for i, l := range ls {
		p := c.Leaves[i]
		win := ""
		for _, s := range []string{"flag", "env", "file", "default"} {
			if contains(p.Sources, s) {
				win = s
				break
			}
		}
		for _, s := range p.Sources {
			v := valueFor(l, i, s, s == win)
			switch s {
			case "default":
				l.get(dv).Set(reflect.ValueOf(v))
			case "file":
				m := fileTree
				for _, tag := range l.TagPath[:len(l.TagPath)-1] {
					if _, ok := m[tag]; !ok {
						m[tag] = map[string]interface{}{}
					}
					m = m[tag].(map[string]interface{})
				}
				if l.IsDur {
					m[l.TagPath[len(l.TagPath)-1]] = asString(v)
				} else {
					m[l.TagPath[len(l.TagPath)-1]] = v
				}
			case "env":
				setEnv(envName(c.Prefix, l), asString(v))
			}
		}
		if p.FlagBound && p.TwoFlags && contains(p.Sources, "flag") {
			// two flags, different non-zero defaults; the first is set explicitly (possibly to the value of its own default)
			nameA, nameB := fmt.Sprintf("f%da", i), fmt.Sprintf("f%db", i)
			fv := valueFor(l, i, "flag", true)
			other := valueFor(l, i+500, "default", true) // some other value of the right type
			defA := valueFor(l, i+700, "default", true)
			if p.OwnDefault {
				defA = fv
			}
			switch {
			case l.IsDur:
				flags.Duration(nameA, defA.(time.Duration), "")
				flags.Duration(nameB, other.(time.Duration), "")
			case l.Kind == reflect.String:
				flags.String(nameA, defA.(string), "")
				flags.String(nameB, other.(string), "")
			case l.Kind == reflect.Int:
				flags.Int(nameA, defA.(int), "")
				flags.Int(nameB, other.(int), "")
			default:
				flags.Float64(nameA, defA.(float64), "")
				flags.Float64(nameB, other.(float64), "")
			}
			if err := config.BindFlagsToEnv(session, c.Prefix, envName(c.Prefix, l), flags.Lookup(nameA), flags.Lookup(nameB)); err != nil {
				ev.Fail(t, prop, test, c, "BindFlagsToEnv(%s) failed: %v", envName(c.Prefix, l), err)
			}
			if err := flags.Set(nameA, asString(fv)); err != nil {
				t.Fatalf("HARNESS: %v", err)
			}
		} else if p.FlagBound {
			name := fmt.Sprintf("f%d", i)
			switch {
			case p.FlagDefault && l.IsDur:
				flags.Duration(name, valueFor(l, i+900, "default", true).(time.Duration), "")
			case p.FlagDefault && l.Kind == reflect.String:
				flags.String(name, valueFor(l, i+900, "default", true).(string), "")
			case p.FlagDefault && l.Kind == reflect.Int:
				flags.Int(name, valueFor(l, i+900, "default", true).(int), "")
			case p.FlagDefault && l.Kind == reflect.Float64:
				flags.Float64(name, valueFor(l, i+900, "default", true).(float64), "")
			case l.IsDur:
				flags.Duration(name, 0, "")
			case l.Kind == reflect.String:
				flags.String(name, "", "")
			case l.Kind == reflect.Int:
				flags.Int(name, 0, "")
			case l.Kind == reflect.Float64:
				flags.Float64(name, 0, "")
			default:
				flags.Bool(name, false, "")
			}
			if err := config.BindFlagToEnv(session, c.Prefix, envName(c.Prefix, l), flags.Lookup(name)); err != nil {
				ev.Fail(t, prop, test, c, "BindFlagToEnv(%s) failed: %v", envName(c.Prefix, l), err)
			}
			if contains(p.Sources, "flag") {
				fv := valueFor(l, i, "flag", win == "flag")
				if p.ZeroFlag {
					fv = reflect.Zero(reflect.TypeOf(fv)).Interface()
				}
				if err := flags.Set(name, asString(fv)); err != nil {
					t.Fatalf("HARNESS: %v", err)
				}
			}
		}
		if win == "flag" && p.ZeroFlag {
			expected[i] = reflect.Zero(l.get(tv).Type()).Interface()
		} else if win != "" {
			expected[i] = valueFor(l, i, win, true)
		} else {
			expected[i] = reflect.Zero(l.get(tv).Type()).Interface()
		}
		if p.Required {
			masks[strings.Join(l.Owner, ".")] |= l.ReqBit
		}
	}
	for owner, m := range masks {
		var path []string
		if owner != "" {
			path = strings.Split(owner, ".")
		}
		setReq(tv, path, m)
	}
	// the configuration file
	dir, _ := os.MkdirTemp("", "c15-")
	defer os.RemoveAll(dir)
	file := ""
	if len(fileTree) > 0 {
		file = filepath.Join(dir, "config."+c.File)
		var data []byte
		if c.File == "json" {
			data, _ = json.MarshalIndent(fileTree, "", " ")
		} else {
			data = []byte(toYAML(fileTree, 0))
		}
		if err := os.WriteFile(file, data, 0o644); err != nil {
			t.Fatalf("HARNESS: %v", err)
		}
	}
	var lerr error
	ev.Guard(t, prop, test, c, func() { lerr = config.LoadFromEnvironment(session, c.Prefix, target, defaults, file) })
	// precedence: every leaf equals the value of its highest-priority present source
	var zeroRequired []leafInfo
	for i, l := range ls {
		got := l.get(tv).Interface()
		if pl := c.Leaves[i]; pl.FlagDefault && !contains(pl.Sources, "flag") && len(pl.Sources) == 0 && reflect.DeepEqual(got, valueFor(l, i+900, "default", true)) {
			// no source at all: that the default of the unset flag shows is not excluded by the statement
			ev.Class("no source: the default of the unset flag shows")
			continue
		}
		if !reflect.DeepEqual(got, expected[i]) {
			ev.Fail(t, prop, test, c, "field %s (env %s): loaded %v, want %v from sources %v (flag > env > file > default); Load returned %v",
				strings.Join(l.GoPath, "->"), envName(c.Prefix, l), got, expected[i], c.Leaves[i].Sources, lerr)
		}
		if c.Leaves[i].Required && reflect.ValueOf(expected[i]).IsZero() {
			zeroRequired = append(zeroRequired, l)
		}
	}
	// validation
	if len(zeroRequired) == 0 {
		if lerr != nil {
			ev.Fail(t, prop, test, c, "every required field is set but Load failed: %v", lerr)
		}
	} else {
		if !commonerrors.Any(lerr, commonerrors.ErrInvalid) {
			ev.Fail(t, prop, test, c, "%d required field(s) are unset (e.g. %s) but Load returned %v, want the 'invalid' kind", len(zeroRequired), strings.Join(zeroRequired[0].GoPath, "->"), lerr)
		}
		named := false
		msg := lerr.Error()
		for _, l := range zeroRequired {
			leafTag := l.TagPath[len(l.TagPath)-1]
			owner := strings.Join(l.Owner, "->")
			if (strings.Contains(msg, leafTag) || strings.Contains(msg, l.GoPath[len(l.GoPath)-1])) && (owner == "" || strings.Contains(msg, owner)) {
				named = true
			}
		}
		if !named {
			ev.Fail(t, prop, test, c, "the validation error %q does not name any of the unset required fields (e.g. %s)", msg, strings.Join(zeroRequired[0].GoPath, "->"))
		}
		ev.Class("validation-failure-expected")
	}
	// metamorphic: each reported name alone is honoured
	pick := 0
	if len(ls) > 0 {
		pick = len(c.Leaves[0].Sources) % len(ls)
	}
	for i, l := range ls {
		if i != pick && i != (pick+len(ls)/2)%len(ls) {
			continue // two leaves per case keep the cost down; every leaf is reached over the cases
		}
		clearEnv()
		v := valueFor(l, i, "env", true)
		setEnv(envName(c.Prefix, l), asString(v))
		fresh := newFamily(c.Family)
		merr := config.LoadFromEnvironment(viper.New(), c.Prefix, fresh, newFamily(c.Family), "")
		if got := l.get(reflect.ValueOf(fresh)).Interface(); !reflect.DeepEqual(got, v) {
			ev.Fail(t, prop, test, c, "the reported variable %s alone is not honoured: field %s loaded as %v, want %v (Load returned %v)", envName(c.Prefix, l), strings.Join(l.GoPath, "->"), got, v, merr)
		}
	}
}

func toYAML(m map[string]interface{}, indent int) string {
	var keys []string
	for k := range m {
		keys = append(keys, k)
	}
	sort.Strings(keys)
	var sb strings.Builder
	for _, k := range keys {
		pad := strings.Repeat("  ", indent)
		switch v := m[k].(type) {
		case map[string]interface{}:
			sb.WriteString(fmt.Sprintf("%s%q:\n%s", pad, k, toYAML(v, indent+1)))
		case string:
			sb.WriteString(fmt.Sprintf("%s%q: %q\n", pad, k, v))
		default:
			sb.WriteString(fmt.Sprintf("%s%q: %v\n", pad, k, v))
		}
	}
	return sb.String()
}

func replayCase(t ev.T, raw json.RawMessage) {
	var c Case
	if err := json.Unmarshal(raw, &c); err != nil {
		t.Fatalf("HARNESS: %v", err)
	}
	checkCase(t, "TestPrecedence", c)
}

func init() { ev.RegisterReplay("TestPrecedence", replayCase) }

func TestReplay(t *testing.T)      { ev.RunReplay(t) }
func TestRegressions(t *testing.T) { ev.Regressions(t, prop) }

func TestPrecedence(t *testing.T) {
	rapid.Check(t, func(rt *rapid.T) {
		c := genCase(rt)
		key, _ := json.Marshal(c)
		ev.Case(string(key), c.nontrivial(), c.Family+"/"+c.File, c)
		for _, p := range c.Leaves {
			if len(p.Sources) > 0 {
				ev.Class("winner:" + p.Sources[0])
			} else {
				ev.Class("winner:none")
			}
		}
		checkCase(rt, "TestPrecedence", c)
	})
}
