// Package c08 decides C08: exclusion patterns protect exactly what they name, in every operation.
package c08

import (
	"archive/zip"
	"bytes"
	"context"
	"encoding/json"
	"fmt"
	"os"
	"path"
	"path/filepath"
	"regexp"
	"sort"
	"strings"
	"testing"

	"github.com/spf13/afero"
	"pgregory.net/rapid"

	"github.com/ARM-software/golang-utils/utils/commonerrors"
	"github.com/ARM-software/golang-utils/utils/filesystem"

	"verif/internal/ev"
	"verif/internal/fsbox"
	"verif/internal/treegen"
)

const prop = "C08"

func TestMain(m *testing.M) { ev.Main(m) }

type Case struct {
	Backend  string       `json:"backend"`
	Op       string       `json:"operation"`
	Tree     treegen.Tree `json:"tree"`
	Patterns []string     `json:"patterns"`
	Invalid  bool         `json:"has_invalid_pattern,omitempty"`
	// Root (invalid-pattern cases only): what stands at the location the operation is given: "" = the directory holding
	// the tree, "empty" = an empty directory, "file" = a regular file, "link" = a symbolic link to the directory holding the
	// tree (OS backend), "missing" = nothing. An invalid pattern is rejected whatever is there.
	Root string `json:"root,omitempty"`
	// Arch (zip only): base name of the archive to write (default Z.zip): it may well be a name that also occurs in the tree
	Arch string `json:"archive_name,omitempty"`
	// AssertCross disables the by-construction exclusion of known finding C08-R6 (only set by its replay)
	AssertCross bool `json:"assert_cross_separator,omitempty"`
}

var ops = []string{"walk", "ls", "lsrecursive", "listdirtree", "subdirectories", "copy", "zip", "remove", "cleandir"}

// ---- generators -----------------------------------------------------------------------------------------

var nameAlphabet = []string{"a", "b", "c", "x", ".", "-"}

func genName(t *rapid.T, label string) string {
	for {
		n := strings.Join(rapid.SliceOfN(rapid.SampledFrom(nameAlphabet), 1, 4).Draw(t, label), "")
		if n != "." && n != ".." {
			return n
		}
	}
}

func genTree(t *rapid.T) treegen.Tree {
	var tr treegen.Tree
	dirs := []string{""}
	depth := map[string]int{"": 0}
	used := map[string]bool{}
	n := rapid.IntRange(1, 18).Draw(t, "entries")
	for i := 0; i < n; i++ {
		parent := dirs[rapid.IntRange(0, len(dirs)-1).Draw(t, fmt.Sprintf("parent%d", i))]
		p := path.Join(parent, genName(t, fmt.Sprintf("name%d", i)))
		if used[p] {
			continue
		}
		used[p] = true
		if rapid.IntRange(0, 2).Draw(t, fmt.Sprintf("dir%d", i)) == 0 && depth[parent] < 4 {
			tr = append(tr, treegen.Node{Path: p, Kind: "dir"})
			dirs = append(dirs, p)
			depth[p] = depth[parent] + 1
		} else {
			tr = append(tr, treegen.Node{Path: p, Kind: "file", Content: treegen.Content{Len: rapid.IntRange(0, 20).Draw(t, fmt.Sprintf("len%d", i)), Kind: 1, Seed: uint64(i)}})
		}
	}
	return tr
}

// genRegex draws an anchor-free regular expression over the name characters.
func genRegex(t *rapid.T, label string, depth int) string {
	lit := func(l string) string {
		c := rapid.SampledFrom(nameAlphabet).Draw(t, l)
		if c == "." {
			return "\\."
		}
		return c
	}
	k := rapid.IntRange(0, 9).Draw(t, label+"-k")
	if depth >= 3 && k > 4 {
		k = 0
	}
	switch k {
	case 0, 1, 2:
		return lit(label + "-l")
	case 3:
		return "."
	case 4:
		return "[" + lit(label+"-c1") + lit(label+"-c2") + "]"
	case 5:
		return genRegex(t, label+"-a", depth+1) + genRegex(t, label+"-b", depth+1)
	case 6:
		return genRegex(t, label+"-a", depth+1) + genRegex(t, label+"-b", depth+1) + genRegex(t, label+"-c", depth+1)
	case 7:
		return "(" + genRegex(t, label+"-g", depth+1) + ")" + rapid.SampledFrom([]string{"*", "+", "?", ""}).Draw(t, label+"-q")
	case 8:
		return genRegex(t, label+"-a", depth+1) + rapid.SampledFrom([]string{"*", "+", "?"}).Draw(t, label+"-q")
	default:
		return "(" + genRegex(t, label+"-a", depth+1) + "|" + genRegex(t, label+"-b", depth+1) + ")"
	}
}

var invalidPatterns = []string{"(", "[a", "*a", "a(", "a)", "[", "(?P<", "a{2,1}", "\\"}

// roots: sandbox locations whose own path contains no character of the name alphabet.
func newBox(kind string) *fsbox.Box {
	return fsbox.NewAt(kind, "/tmp", "R", "/R/T")
}

func genCase(t *rapid.T) Case {
	c := Case{Backend: rapid.SampledFrom([]string{"mem", "os"}).Draw(t, "backend"), Op: rapid.SampledFrom(ops).Draw(t, "op")}
	c.Tree = genTree(t)
	n := rapid.IntRange(0, 3).Draw(t, "patterns")
	rootProbe := "/tmp/R0123456789/S/D/Z.zip /R/T/S/D/Z.zip" // every character a root path can contain
	for i := 0; i < n; i++ {
		for try := 0; try < 8; try++ {
			p := genRegex(t, fmt.Sprintf("p%d-%d", i, try), 0)
			re, err := regexp.Compile(p)
			if err != nil {
				continue
			}
			if re.MatchString(rootProbe) || re.MatchString("") {
				continue // the root itself would match: outside the property's precondition
			}
			c.Patterns = append(c.Patterns, p)
			break
		}
	}
	// blank patterns are ignored by the library wherever they stand in the set: the patterns around them still count
	if rapid.IntRange(0, 3).Draw(t, "blank") == 0 {
		at := rapid.IntRange(0, len(c.Patterns)).Draw(t, "blank-at")
		blank := rapid.SampledFrom([]string{"", " ", "  "}).Draw(t, "blank-pattern")
		c.Patterns = append(c.Patterns[:at], append([]string{blank}, c.Patterns[at:]...)...)
	}
	if c.Op == "zip" && rapid.Bool().Draw(t, "archive-named-like-an-entry") {
		c.Arch = genName(t, "archive-name")
		if len(c.Tree) > 0 && rapid.Bool().Draw(t, "same-as-an-entry") {
			c.Arch = path.Base(c.Tree[rapid.IntRange(0, len(c.Tree)-1).Draw(t, "which-entry")].Path)
		}
	}
	if rapid.IntRange(0, 14).Draw(t, "invalid") == 0 {
		c.Invalid = true
		c.Patterns = append(c.Patterns, rapid.SampledFrom(invalidPatterns).Draw(t, "invalid-pattern"))
		c.Root = rapid.SampledFrom([]string{"", "", "empty", "file", "link", "missing"}).Draw(t, "root")
		if c.Root == "link" && c.Backend != "os" {
			c.Root = "empty"
		}
		switch c.Op {
		case "remove", "cleandir", "copy", "zip":
		default:
			// a listing of something that is not a directory may fail for that reason first
			if c.Root != "" {
				c.Root = "empty"
			}
		}
	}
	return c
}

// ---- reference ---------------------------------------------------------------------------------------------------

type verdict int

const (
	unspecified verdict = iota
	mustSkip
	mustProcess
)

type classifier struct {
	full []*regexp.Regexp
	any  []*regexp.Regexp
}

func newClassifier(patterns []string) *classifier {
	c := &classifier{}
	for _, p := range patterns {
		if strings.TrimSpace(p) == "" {
			continue // blank: ignored by the library
		}
		c.full = append(c.full, regexp.MustCompile("^(?:"+p+")$"))
		c.any = append(c.any, regexp.MustCompile(p))
	}
	return c
}

// classify an entry by its components below the root, and (for the joined-path matching of copy / remove / zip)
// by the joined paths the library may test.
func (c *classifier) classify(rel string, joined ...string) (verdict, bool) {
	comps := strings.Split(rel, "/")
	for _, comp := range comps {
		for _, re := range c.full {
			if re.MatchString(comp) {
				return mustSkip, false
			}
		}
	}
	for _, comp := range comps {
		for _, re := range c.any {
			if re.MatchString(comp) {
				return unspecified, false
			}
		}
	}
	// no component contains a match. Known finding C08-R6: the joined path may still match across a separator.
	for _, j := range append(joined, rel) {
		for _, re := range c.any {
			if re.MatchString(j) {
				return mustProcess, true
			}
		}
	}
	return mustProcess, false
}

// ---- check -------------------------------------------------------------------------------------------------------------

func checkCase(t ev.T, test string, c Case) {
	box := newBox(c.Backend)
	defer box.Close()
	src, dst, arch := box.Path("S"), box.Path("D"), box.Path("Z.zip")
	if c.Arch != "" {
		arch = box.Path(c.Arch)
	}
	var serr error
	switch c.Root {
	case "empty":
		serr = box.Raw.MkdirAll(src, 0o755)
	case "file":
		serr = afero.WriteFile(box.Raw, src, []byte("content"), 0o644)
	case "missing":
	case "link":
		if serr = c.Tree.Write(box.Raw, box.Path("L")); serr == nil {
			serr = os.Symlink(box.Path("L"), src)
		}
	default:
		serr = c.Tree.Write(box.Raw, src)
	}
	if serr != nil {
		t.Fatalf("HARNESS: %v", serr)
	}
	if c.Root != "" {
		ev.Class("invalid pattern, root: " + c.Root)
	}
	before := box.Snap()
	ctx := context.Background()
	var err error
	reported := map[string]bool{} // rel paths reported / copied / archived
	ev.Guard(t, prop, test, c, func() {
		rel := func(p string) string {
			r, rerr := filepath.Rel(src, p)
			if rerr != nil {
				return p
			}
			return filepath.ToSlash(r)
		}
		switch c.Op {
		case "walk":
			err = box.FS.WalkWithContextAndExclusionPatterns(ctx, src, func(p string, info os.FileInfo, werr error) error {
				if werr != nil {
					return werr
				}
				reported[rel(p)] = true
				return nil
			}, c.Patterns...)
		case "ls":
			var names []string
			names, err = box.FS.LsWithExclusionPatterns(src, c.Patterns...)
			for _, n := range names {
				reported[n] = true
			}
		case "lsrecursive":
			var files []string
			files, err = box.FS.LsRecursiveWithExclusionPatterns(ctx, src, true, c.Patterns...)
			for _, f := range files {
				reported[rel(f)] = true
			}
		case "listdirtree":
			var list []string
			err = box.FS.ListDirTreeWithContextAndExclusionPatterns(ctx, src, &list, c.Patterns...)
			for _, f := range list {
				reported[rel(f)] = true
			}
		case "subdirectories":
			var dirs []string
			dirs, err = box.FS.SubDirectoriesWithContextAndExclusionPatterns(ctx, src, c.Patterns...)
			for _, d := range dirs {
				reported[d] = true
			}
		case "copy":
			err = box.FS.CopyWithContextAndExclusionPatterns(ctx, src, dst, c.Patterns...)
		case "zip":
			err = box.FS.ZipWithContextAndLimitsAndExclusionPatterns(ctx, src, arch, filesystem.NoLimits(), c.Patterns...)
		case "remove":
			err = box.FS.RemoveWithContextAndExclusionPatterns(ctx, src, c.Patterns...)
		case "cleandir":
			err = box.FS.CleanDirWithContextAndExclusionPatterns(ctx, src, c.Patterns...)
		}
	})
	after := box.Snap()
	if c.Invalid {
		// invalid patterns are rejected with the 'invalid' kind before anything is touched
		if !commonerrors.Any(err, commonerrors.ErrInvalid) {
			ev.Fail(t, prop, test, c, "%s with the invalid pattern %q returned %v, want the 'invalid' kind", c.Op, c.Patterns[len(c.Patterns)-1], err)
		}
		if d := treegen.Diff(before, after, treegen.DiffOptions{}); len(d) > 0 {
			ev.Fail(t, prop, test, c, "%s with an invalid pattern changed the tree: %v", c.Op, d)
		}
		return
	}
	if err != nil {
		ev.Fail(t, prop, test, c, "%s with patterns %q failed: %v", c.Op, c.Patterns, err)
	}
	switch c.Op {
	case "copy":
		for r := range after {
			if strings.HasPrefix(r, "D/") {
				reported[strings.TrimPrefix(r, "D/")] = true
			}
		}
	case "zip":
		data, rerr := afero.ReadFile(box.Raw, arch)
		if rerr != nil {
			t.Fatalf("HARNESS: %v", rerr)
		}
		zr, zerr := zip.NewReader(bytes.NewReader(data), int64(len(data)))
		if zerr != nil {
			ev.Fail(t, prop, test, c, "the archive produced cannot be read: %v", zerr)
		}
		for _, f := range zr.File {
			reported[strings.TrimSuffix(f.Name, "/")] = true
		}
	}
	cl := newClassifier(c.Patterns)
	// every entry of the source tree
	var rels []string
	for r := range before {
		if strings.HasPrefix(r, "S/") {
			rels = append(rels, strings.TrimPrefix(r, "S/"))
		}
	}
	sort.Strings(rels)
	direct := c.Op == "ls" || c.Op == "subdirectories"
	verdicts := map[string]verdict{}
	crossSep := map[string]bool{}
	for _, r := range rels {
		v, cross := cl.classify(r, filepath.Join(src, r), filepath.Join(dst, r), "S/"+r, "D/"+r)
		verdicts[r] = v
		crossSep[r] = cross
	}
	for _, r := range rels {
		v := verdicts[r]
		kind := before["S/"+r].Kind
		if direct && strings.Contains(r, "/") {
			continue
		}
		if c.Op == "subdirectories" && kind != "dir" {
			continue
		}
		switch c.Op {
		case "remove", "cleandir":
			_, survives := after["S/"+r]
			if v == mustSkip && !survives {
				ev.Fail(t, prop, test, c, "%s with patterns %q deleted %q, which is (or lies beneath) an entry whose name is matched in full", c.Op, c.Patterns, r)
			}
			if v == mustProcess && survives {
				// it must go unless it is the ancestor of something that may legitimately stay
				blocked := false
				for _, o := range rels {
					if strings.HasPrefix(o, r+"/") && (verdicts[o] != mustProcess || crossSep[o]) {
						blocked = true
					}
				}
				if crossSep[r] && !c.AssertCross {
					ev.Exclude("C08-R6 joined path matches across a separator")
					continue
				}
				if !blocked {
					ev.Fail(t, prop, test, c, "%s with patterns %q kept %q although none of its path components (nor of anything beneath) contains a match", c.Op, c.Patterns, r)
				}
			}
		default:
			if v == mustSkip && reported[r] {
				ev.Fail(t, prop, test, c, "%s with patterns %q processed %q, which is (or lies beneath) an entry whose name is matched in full", c.Op, c.Patterns, r)
			}
			if v == mustProcess && !reported[r] {
				if (crossSep[r] || ancestorCross(r, crossSep)) && !c.AssertCross {
					ev.Exclude("C08-R6 joined path matches across a separator")
					continue
				}
				ev.Fail(t, prop, test, c, "%s with patterns %q did not process %q although none of its path components contains a match", c.Op, c.Patterns, r)
			}
		}
	}
	// copies are faithful for what they copy
	if c.Op == "copy" {
		for _, r := range rels {
			if verdicts[r] == mustProcess && reported[r] {
				a, b := before["S/"+r], after["D/"+r]
				if a.Kind != b.Kind || a.Sha != b.Sha {
					ev.Fail(t, prop, test, c, "copy of %q differs from its source", r)
				}
			}
		}
	}
	// read-only operations change nothing
	if c.Op != "remove" && c.Op != "cleandir" {
		if d := treegen.Diff(before, after, treegen.DiffOptions{Under: "S"}); len(d) > 0 {
			ev.Fail(t, prop, test, c, "%s changed its source tree: %v", c.Op, d)
		}
	}
}

func ancestorCross(r string, cross map[string]bool) bool {
	for p := path.Dir(r); p != "." && p != "/"; p = path.Dir(p) {
		if cross[p] {
			return true
		}
	}
	return false
}

func (c Case) nontrivial() bool { return len(c.Patterns) > 0 && len(c.Tree) > 1 }

func replayCase(t ev.T, raw json.RawMessage) {
	var c Case
	if err := json.Unmarshal(raw, &c); err != nil {
		t.Fatalf("HARNESS: %v", err)
	}
	checkCase(t, "TestExclusions", c)
}

func init() { ev.RegisterReplay("TestExclusions", replayCase) }

func TestReplay(t *testing.T)      { ev.RunReplay(t) }
func TestRegressions(t *testing.T) { ev.Regressions(t, prop) }

func TestExclusions(t *testing.T) {
	rapid.Check(t, func(rt *rapid.T) {
		c := genCase(rt)
		key, _ := json.Marshal(c)
		ev.Case(string(key), c.nontrivial(), c.Op+"/"+c.Backend, c)
		// generator health: how many entries fall in each verdict class
		cl := newClassifier(nil)
		if !c.Invalid {
			cl = newClassifier(c.Patterns)
		}
		for _, n := range c.Tree {
			v, cross := cl.classify(n.Path)
			switch {
			case cross:
				ev.Class("entry:cross-separator-match")
			case v == mustSkip:
				ev.Class("entry:must-skip")
			case v == mustProcess:
				ev.Class("entry:must-process")
			default:
				ev.Class("entry:unspecified")
			}
		}
		checkCase(rt, "TestExclusions", c)
	})
}
