// Package c04 decides C04: recursive removal never touches anything outside the tree.
package c04

import (
	"context"
	"encoding/json"
	"fmt"
	"os"
	"path"
	"path/filepath"
	"regexp"
	"strings"
	"testing"
	"time"

	"github.com/spf13/afero"
	"pgregory.net/rapid"

	"verif/internal/ev"
	"verif/internal/fsbox"
	"verif/internal/fsx"
	"verif/internal/treegen"
)

const prop = "C04"

func TestMain(m *testing.M) { ev.Main(m) }

type Case struct {
	Backend  string       `json:"backend"`
	Entry    string       `json:"entry_point"`
	Tree     treegen.Tree `json:"tree"`
	Patterns []string     `json:"exclusion_patterns,omitempty"`
	// Target (removal entry points only): the call is given this entry of the tree (a link, a file, a sub-directory) instead
	// of the root of the tree; everything else is then "outside"
	Target string `json:"target,omitempty"`
}

var entries = []string{"Rm", "RemoveWithContext", "RemoveWithContextAndExclusionPatterns", "RemoveWithPrivileges", "CleanDir", "CleanDirWithContext",
	"CleanDirWithContextAndExclusionPatterns", "GarbageCollect"}

func genCase(t *rapid.T) Case {
	c := Case{Backend: rapid.SampledFrom([]string{"os", "os", "os", "mem"}).Draw(t, "backend")}
	c.Entry = rapid.SampledFrom(entries).Draw(t, "entry")
	o := treegen.Options{MaxDepth: 5, MaxEntries: 25, Modes: true, Links: c.Backend == "os", OutsideDir: "@OUTSIDE@", OutsideFile: "@OUTSIDE@/f.txt", Small: rapid.Bool().Draw(t, "small-names")}
	c.Tree = treegen.Gen(t, "tree", o)
	if (c.Entry == "Rm" || strings.HasPrefix(c.Entry, "Remove")) && len(c.Tree) > 0 && rapid.IntRange(0, 2).Draw(t, "inner-target") == 0 {
		var linksOf []string
		for _, nd := range c.Tree {
			if nd.Kind == "link" {
				linksOf = append(linksOf, nd.Path)
			}
		}
		if len(linksOf) > 0 && rapid.Bool().Draw(t, "target-a-link") {
			c.Target = rapid.SampledFrom(linksOf).Draw(t, "target-link")
		} else {
			c.Target = c.Tree[rapid.IntRange(0, len(c.Tree)-1).Draw(t, "target")].Path
		}
	}
	if strings.HasSuffix(c.Entry, "ExclusionPatterns") {
		n := rapid.IntRange(0, 2).Draw(t, "patterns")
		var names []string
		for _, nd := range c.Tree {
			// blank patterns are treated as "no pattern" by the library (unspecified by the property): not generated
			if strings.TrimSpace(path.Base(nd.Path)) != "" {
				names = append(names, path.Base(nd.Path))
			}
		}
		// a blank pattern is ignored by the library wherever it stands: the other patterns of the set still protect
		blankAt := -1
		if n > 0 && rapid.IntRange(0, 3).Draw(t, "blank") == 0 {
			blankAt = rapid.IntRange(0, n).Draw(t, "blank-at")
		}
		for i := 0; i < n; i++ {
			if i == blankAt {
				c.Patterns = append(c.Patterns, rapid.SampledFrom([]string{"", " "}).Draw(t, "blank-pattern"))
			}
			if len(names) > 0 && rapid.IntRange(0, 3).Draw(t, fmt.Sprintf("pat-from-tree%d", i)) > 0 {
				nm := names[rapid.IntRange(0, len(names)-1).Draw(t, fmt.Sprintf("pat%d", i))]
				if r := []rune(nm); len(r) >= 3 && rapid.IntRange(0, 2).Draw(t, fmt.Sprintf("pat-part%d", i)) == 0 {
					// a part of the name that does not begin it (the end of it, or its middle)
					from := rapid.IntRange(1, len(r)-1).Draw(t, fmt.Sprintf("pat-from%d", i))
					to := rapid.IntRange(from+1, len(r)).Draw(t, fmt.Sprintf("pat-to%d", i))
					nm = string(r[from:to])
					if strings.TrimSpace(nm) == "" {
						nm = string(r)
					}
				}
				c.Patterns = append(c.Patterns, regexp.QuoteMeta(nm))
			} else {
				c.Patterns = append(c.Patterns, rapid.SampledFrom([]string{"a", "b", "lnk0", "lnk1", "keep", "zz", "x"}).Draw(t, fmt.Sprintf("pat%d", i)))
			}
		}
		if c.Target != "" && strings.TrimSpace(path.Base(c.Target)) != "" && rapid.Bool().Draw(t, "pattern-names-the-target") {
			c.Patterns = append(c.Patterns, regexp.QuoteMeta(path.Base(c.Target)))
		}
	}
	return c
}

func hasLink(tr treegen.Tree) bool {
	for _, n := range tr {
		if n.Kind == "link" {
			return true
		}
	}
	return false
}

func checkCase(t ev.T, test string, c Case) {
	box := fsbox.New(c.Backend)
	defer box.Close()
	raw := box.Raw
	must := func(err error) {
		if err != nil {
			t.Fatalf("HARNESS: %v", err)
		}
	}
	outside := box.Path("outside")
	must(raw.MkdirAll(filepath.Join(outside, "sub", "deep"), 0o755))
	must(afero.WriteFile(raw, filepath.Join(outside, "sub", "precious.txt"), []byte("precious"), 0o644))
	must(afero.WriteFile(raw, filepath.Join(outside, "sub", "deep", "more.txt"), []byte("more"), 0o644))
	must(afero.WriteFile(raw, filepath.Join(outside, "f.txt"), []byte("outside file"), 0o644))
	must(raw.MkdirAll(box.Path("elsewhere"), 0o755))
	must(afero.WriteFile(raw, box.Path("elsewhere", "e.txt"), []byte("e"), 0o644))
	must(afero.WriteFile(raw, box.Path("tree-sibling.txt"), []byte("s"), 0o644))
	tree := make(treegen.Tree, len(c.Tree))
	copy(tree, c.Tree)
	for i := range tree {
		tree[i].Target = strings.ReplaceAll(tree[i].Target, "@OUTSIDE@", outside)
	}
	troot := box.Path("tree")
	if err := tree.Write(raw, troot); err != nil {
		ev.Inconclusive("tree could not be written: " + err.Error()[strings.LastIndex(err.Error(), ":")+1:])
		return
	}
	// what the call is given: the root of the tree, or one entry of it
	tpath, trel := troot, "tree"
	if c.Target != "" {
		tpath, trel = filepath.Join(troot, filepath.FromSlash(c.Target)), "tree/"+c.Target
		ev.Class("the call is given an entry inside the tree")
	}
	before := box.Snap()
	if c.Target != "" {
		if _, ok := before[trel]; !ok {
			ev.Inconclusive("target not in the written tree")
			return
		}
		if before[trel].Kind == "link" {
			ev.Class("the call is given a symbolic link")
		}
	}
	links := map[string]bool{} // absolute paths of links in the pre-state
	for rel, e := range before {
		if e.Kind == "link" {
			links[box.Path(filepath.FromSlash(rel))] = true
		}
	}
	box.Backend.Reset()
	ctx := context.Background()
	var err error
	ev.Guard(t, prop, test, c, func() {
		switch c.Entry {
		case "Rm":
			err = box.FS.Rm(tpath)
		case "RemoveWithContext":
			err = box.FS.RemoveWithContext(ctx, tpath)
		case "RemoveWithContextAndExclusionPatterns":
			err = box.FS.RemoveWithContextAndExclusionPatterns(ctx, tpath, c.Patterns...)
		case "RemoveWithPrivileges":
			err = box.FS.RemoveWithPrivileges(ctx, tpath)
		case "CleanDir":
			err = box.FS.CleanDir(troot)
		case "CleanDirWithContext":
			err = box.FS.CleanDirWithContext(ctx, troot)
		case "CleanDirWithContextAndExclusionPatterns":
			err = box.FS.CleanDirWithContextAndExclusionPatterns(ctx, troot, c.Patterns...)
		case "GarbageCollect":
			err = box.FS.GarbageCollect(troot, 0)
		}
	})
	if c.Entry == "GarbageCollect" {
		// garbage collection fans out goroutines and may return before all of them are done (it stops waiting at the
		// first failing entry): wait for the backend to go quiet so that the snapshot describes the final state
		last := box.Backend.OpCount()
		for quiet := 0; quiet < 3; {
			time.Sleep(5 * time.Millisecond)
			if n := box.Backend.OpCount(); n != last {
				last, quiet = n, 0
			} else {
				quiet++
			}
		}
	}
	after := box.Snap()
	// (1) frame: nothing outside the tree differs
	for _, d := range treegen.Diff(before, after, treegen.DiffOptions{Except: []string{trel}}) {
		if strings.HasPrefix(d, "mtime changed: . ") {
			continue // the sandbox root lists the tree
		}
		if c.Target != "" && strings.HasPrefix(d, "mtime changed: "+path.Dir(trel)+" ") {
			continue // the directory holding the target lists it
		}
		var muts []string
		for _, op := range box.Backend.Ops() {
			if op.Mutating && len(muts) < 40 {
				muts = append(muts, strings.ReplaceAll(op.String(), box.Root, ""))
			}
		}
		ev.Fail(t, prop, test, c, "%s(tree) changed something outside the tree: %s (returned %v); mutating backend operations: %v", c.Entry, d, err, muts)
	}
	// (2) the operation log never leaves the tree and never walks through a link
	for _, op := range box.Backend.Ops() {
		if !op.Mutating || op.Err != "" {
			continue
		}
		for _, p := range []string{op.Path, op.Path2} {
			if p == "" {
				continue
			}
			if !fsx.Inside(tpath, p) {
				ev.Fail(t, prop, test, c, "%s(tree): backend operation outside the tree: %s", c.Entry, op)
			}
			for d := filepath.Dir(p); fsx.Inside(tpath, d) && d != tpath; d = filepath.Dir(d) {
				if links[d] {
					ev.Fail(t, prop, test, c, "%s(tree): backend operation through the symbolic link %q: %s", c.Entry, d, op)
				}
			}
		}
	}
	// (3) success without exclusion patterns: the tree (for CleanDir, its content) is really gone
	if err == nil && len(c.Patterns) == 0 && c.Entry != "GarbageCollect" {
		left := []string{}
		for rel := range after {
			if rel == trel || strings.HasPrefix(rel, trel+"/") {
				left = append(left, rel)
			}
		}
		if strings.HasPrefix(c.Entry, "CleanDir") {
			if len(left) != 1 || after["tree"].Kind != "dir" {
				ev.Fail(t, prop, test, c, "%s reported success but the directory is not empty (or is gone): %v", c.Entry, left)
			}
		} else if len(left) != 0 {
			ev.Fail(t, prop, test, c, "%s reported success but entries of the tree are still there: %v", c.Entry, left)
		}
	}
	// (4) exclusions: entries whose name is matched in full survive with their ancestors and what is beneath
	if len(c.Patterns) > 0 {
		var res []*regexp.Regexp
		for _, p := range c.Patterns {
			if strings.TrimSpace(p) == "" {
				continue
			}
			// (a pattern is searched for in the name, as regular expressions are: `eep` protects `keep.txt`)
			res = append(res, regexp.MustCompile("(?:"+p+")"))
		}
		for rel := range before {
			if !strings.HasPrefix(rel, "tree/") || (c.Target != "" && rel != trel && !strings.HasPrefix(rel, trel+"/")) {
				continue
			}
			protected := false
			comps := strings.Split(strings.TrimPrefix(rel, "tree/"), "/")
			if c.Target != "" {
				// the names that count are the target's own and those beneath it
				comps = strings.Split(strings.TrimPrefix(rel, path.Dir(trel)+"/"), "/")
			}
			for k, comp := range comps {
				if c.Target != "" && k == 0 && rel != trel {
					// the target's own name protects the target itself (the statement speaks of the matching entry and of its
					// ancestors); what a matching target contains is filtered by the names found beneath it
					continue
				}
				for _, re := range res {
					if re.MatchString(comp) {
						protected = true
					}
				}
			}
			if !protected {
				continue
			}
			// the entry and all its ancestors survive
			for p := rel; p != "tree" && p != "." && (c.Target == "" || p == trel || strings.HasPrefix(p, trel+"/")); p = path.Dir(p) {
				if _, ok := after[p]; !ok {
					ev.Fail(t, prop, test, c, "%s with exclusion patterns %q removed %q, needed by the protected entry %q (returned %v)", c.Entry, c.Patterns, p, rel, err)
				}
			}
		}
	}
	if err != nil {
		ev.Class("returned-error")
	}
	_ = os.ErrNotExist
}

func replayCase(t ev.T, raw json.RawMessage) {
	var c Case
	if err := json.Unmarshal(raw, &c); err != nil {
		t.Fatalf("HARNESS: %v", err)
	}
	checkCase(t, "TestRemoval", c)
}

func init() {
	ev.RegisterReplay("TestRemoval", replayCase)
	ev.RegisterReplay("TestWideDirectories", replayCase)
}

func TestReplay(t *testing.T)      { ev.RunReplay(t) }
func TestRegressions(t *testing.T) { ev.Regressions(t, prop) }

func TestRemoval(t *testing.T) {
	rapid.Check(t, func(rt *rapid.T) {
		c := genCase(rt)
		key, _ := json.Marshal(c)
		cl := c.Entry
		ev.Case(string(key), hasLink(c.Tree), cl, c)
		for _, n := range c.Tree {
			if n.Kind == "link" {
				switch {
				case strings.HasPrefix(n.Target, "@OUTSIDE@/"):
					ev.Class("link-to-file-outside")
				case n.Target == "@OUTSIDE@":
					ev.Class("link-to-dir-outside")
				case n.Target == "." || n.Target == "..":
					ev.Class("link-to-ancestor")
				case n.Target == "does-not-exist" || strings.HasPrefix(n.Target, "nowhere"):
					ev.Class("link-dangling")
				case strings.HasPrefix(n.Target, "lnk"):
					ev.Class("link-chain-or-self")
				default:
					ev.Class("link-inside")
				}
			}
		}
		checkCase(rt, "TestRemoval", c)
	})
}

// TestWideDirectories: "for every fan-out". A directory far wider than any batch size a listing may use (1 500 entries, at
// the root of the tree and two levels down) through every entry point without patterns, on both backends.
func TestWideDirectories(t *testing.T) {
	var n int64
	for _, backend := range []string{"os", "mem"} {
		for _, entry := range []string{"Rm", "RemoveWithContext", "RemoveWithPrivileges", "CleanDir", "CleanDirWithContext", "RemoveWithContextAndExclusionPatterns", "CleanDirWithContextAndExclusionPatterns"} {
			for _, where := range []string{"", "a/b/"} {
				c := Case{Backend: backend, Entry: entry}
				if where != "" {
					c.Tree = append(c.Tree, treegen.Node{Path: "a", Kind: "dir"}, treegen.Node{Path: "a/b", Kind: "dir"})
				}
				for i := 0; i < 1500; i++ {
					nd := treegen.Node{Path: fmt.Sprintf("%sf%04d", where, i), Kind: "file", Content: treegen.Content{Len: 1, Seed: uint64(i), Kind: 1}}
					if i%250 == 0 {
						nd = treegen.Node{Path: fmt.Sprintf("%sd%04d", where, i), Kind: "dir"}
					}
					c.Tree = append(c.Tree, nd)
				}
				checkCase(t, "TestWideDirectories", c)
				n++
			}
		}
	}
	ev.Bulk(n, n, "wide-directories")
	ev.Exhaustive("a 1 500-entry directory (root of the tree, and two levels down) x 7 entry points x 2 backends")
}

// ---- entries that the library cannot see -----------------------------------------------------------------------------------

// TestBeyondPathMax: a (legal) tree nested deeper than PATH_MAX bytes. Whatever the library can or cannot do with it, a call
// without exclusion patterns that reports success has really removed the tree (for CleanDir, its content).
func TestBeyondPathMax(t *testing.T) {
	var n int64
	for _, entry := range []string{"Rm", "RemoveWithContext", "RemoveWithContextAndExclusionPatterns", "RemoveWithPrivileges", "CleanDir", "CleanDirWithContext", "CleanDirWithContextAndExclusionPatterns"} {
		for _, levels := range []int{22, 30} {
			c := DeepCase{Entry: entry, Levels: levels}
			key, _ := json.Marshal(c)
			ev.Case(string(key), true, "beyond-path-max/"+entry, c)
			checkDeep(t, "TestBeyondPathMax", c)
			n++
		}
	}
	ev.Exhaustive("trees nested beyond PATH_MAX: removal entry point x {22, 30} levels of 200-byte names")
}

type DeepCase struct {
	Entry  string `json:"entry_point"`
	Levels int    `json:"levels_of_200_byte_names"`
}

func checkDeep(t ev.T, test string, c DeepCase) {
	box := fsbox.New("os")
	defer box.Close()
	troot := box.Path("tree")
	if err := os.MkdirAll(filepath.Join(troot, "near"), 0o755); err != nil {
		t.Fatalf("HARNESS: %v", err)
	}
	_ = os.WriteFile(filepath.Join(troot, "near", "f.txt"), []byte("x"), 0o644)
	// the deep part is built step by step from inside (no single path of it fits in PATH_MAX)
	wd, _ := os.Getwd()
	defer func() { _ = os.Chdir(wd) }()
	if err := os.Chdir(troot); err != nil {
		t.Fatalf("HARNESS: %v", err)
	}
	name := strings.Repeat("d", 200)
	for i := 0; i < c.Levels; i++ {
		if err := os.Mkdir(name, 0o755); err != nil {
			t.Fatalf("HARNESS: mkdir at level %d: %v", i, err)
		}
		if err := os.Chdir(name); err != nil {
			t.Fatalf("HARNESS: chdir at level %d: %v", i, err)
		}
	}
	_ = os.WriteFile("bottom.txt", []byte("bottom"), 0o644)
	_ = os.Chdir(wd)
	ctx := context.Background()
	var err error
	ev.Guard(t, prop, test, c, func() {
		switch c.Entry {
		case "Rm":
			err = box.FS.Rm(troot)
		case "RemoveWithContext":
			err = box.FS.RemoveWithContext(ctx, troot)
		case "RemoveWithContextAndExclusionPatterns":
			err = box.FS.RemoveWithContextAndExclusionPatterns(ctx, troot)
		case "RemoveWithPrivileges":
			err = box.FS.RemoveWithPrivileges(ctx, troot)
		case "CleanDir":
			err = box.FS.CleanDir(troot)
		case "CleanDirWithContext":
			err = box.FS.CleanDirWithContext(ctx, troot)
		case "CleanDirWithContextAndExclusionPatterns":
			err = box.FS.CleanDirWithContextAndExclusionPatterns(ctx, troot)
		}
	})
	if err != nil {
		ev.Class("beyond PATH_MAX: the call reported a failure")
		return
	}
	ev.Class("beyond PATH_MAX: the call reported success")
	left, _ := os.ReadDir(troot)
	if strings.HasPrefix(c.Entry, "CleanDir") {
		if len(left) > 0 {
			ev.Fail(t, prop, test, c, "%s reported success but the directory still holds %d entries (the first one: a %d-byte name)", c.Entry, len(left), len(left[0].Name()))
		}
		return
	}
	if _, serr := os.Lstat(troot); serr == nil {
		ev.Fail(t, prop, test, c, "%s reported success but the tree is still there (%d entries at its top)", c.Entry, len(left))
	}
}

func init() {
	ev.RegisterReplay("TestBeyondPathMax", func(t ev.T, raw json.RawMessage) {
		var c DeepCase
		if err := json.Unmarshal(raw, &c); err != nil {
			t.Fatalf("HARNESS: %v", err)
		}
		checkDeep(t, "TestBeyondPathMax", c)
	})
}
