package c09

import (
	"bytes"
	"context"
	"encoding/json"
	"errors"
	"fmt"
	"io"
	"math"
	"testing"
	"time"

	"github.com/spf13/afero"
	"pgregory.net/rapid"

	"github.com/ARM-software/golang-utils/utils/commonerrors"
	"github.com/ARM-software/golang-utils/utils/filesystem"
	"github.com/ARM-software/golang-utils/utils/safeio"

	"verif/internal/ev"
	"verif/internal/fsbox"
	"verif/internal/treegen"
)

// StreamCase describes one use of a context-aware I/O helper with scripted reader / writer.
type StreamCase struct {
	Helper    string `json:"helper"` // ReadAtMost | ReadAll | CopyData | CopyN | NewByteReader | WriteString
	Len       int    `json:"source_len"`
	Max       int64  `json:"max_or_n"`
	BufCap    int64  `json:"buffer_capacity_hint"`
	Chunks    []int  `json:"reader_chunks"`   // sizes served by successive Reads (cycled); 0 = zero-length read
	ReadErrAt int    `json:"reader_error_at"` // -1 = never; else the reader fails once `at` bytes were served
	WriterTo  bool   `json:"reader_has_writer_to"`
	WChunks   []int  `json:"writer_accepts"`  // bytes accepted by successive Writes (cycled, 0 = everything)
	WriteErr  int    `json:"writer_error_at"` // -1 = never
	ReadFrom  bool   `json:"writer_has_reader_from"`
	CancelAt  int    `json:"cancel_inside_call"` // -1 never; j: the context ends inside the j-th Read (or Write) call
	CancelOn  string `json:"cancel_on"`          // read | write
	Deadline  bool   `json:"deadline"`
}

var errInjectedRead = errors.New("scripted reader failure")
var errInjectedWrite = errors.New("scripted writer failure")

type scriptR struct {
	c      *StreamCase
	data   []byte
	pos    int
	calls  int
	ci     int
	end    func()
	ended  *bool
	after  int // Read calls started after the context ended
	served int
}

func (r *scriptR) Read(p []byte) (int, error) {
	if *r.ended {
		r.after++
	}
	r.calls++
	if r.c.CancelOn == "read" && r.c.CancelAt == r.calls-1 {
		r.end()
	}
	if r.c.ReadErrAt >= 0 && r.pos >= r.c.ReadErrAt {
		return 0, errInjectedRead
	}
	if r.pos >= len(r.data) {
		return 0, io.EOF
	}
	n := len(p)
	if len(r.c.Chunks) > 0 {
		ch := r.c.Chunks[r.ci%len(r.c.Chunks)]
		r.ci++
		if ch < n {
			n = ch
		}
	}
	if rem := len(r.data) - r.pos; n > rem {
		n = rem
	}
	if r.c.ReadErrAt >= 0 && r.pos+n > r.c.ReadErrAt {
		n = r.c.ReadErrAt - r.pos
	}
	copy(p, r.data[r.pos:r.pos+n])
	r.pos += n
	return n, nil
}

type scriptRWT struct{ *scriptR }

func (r scriptRWT) WriteTo(w io.Writer) (int64, error) {
	buf := make([]byte, 1000)
	var total int64
	for {
		n, err := r.Read(buf)
		if n > 0 {
			m, werr := w.Write(buf[:n])
			total += int64(m)
			if werr != nil {
				return total, werr
			}
			if m < n {
				return total, io.ErrShortWrite
			}
		}
		if err == io.EOF {
			return total, nil
		}
		if err != nil {
			return total, err
		}
	}
}

type scriptW struct {
	c     *StreamCase
	buf   bytes.Buffer
	calls int
	ci    int
	end   func()
	ended *bool
	after int
}

func (w *scriptW) Write(p []byte) (int, error) {
	if *w.ended {
		w.after++
	}
	w.calls++
	if w.c.CancelOn == "write" && w.c.CancelAt == w.calls-1 {
		w.end()
	}
	if w.c.WriteErr >= 0 && w.buf.Len() >= w.c.WriteErr {
		return 0, errInjectedWrite
	}
	n := len(p)
	if len(w.c.WChunks) > 0 {
		ch := w.c.WChunks[w.ci%len(w.c.WChunks)]
		w.ci++
		if ch > 0 && ch < n {
			n = ch
		}
	}
	if w.c.WriteErr >= 0 && w.buf.Len()+n > w.c.WriteErr {
		n = w.c.WriteErr - w.buf.Len()
		w.buf.Write(p[:n])
		return n, errInjectedWrite
	}
	w.buf.Write(p[:n])
	return n, nil
}

type scriptWRF struct{ *scriptW }

func (w scriptWRF) ReadFrom(r io.Reader) (int64, error) {
	buf := make([]byte, 700)
	var total int64
	for {
		n, err := r.Read(buf)
		if n > 0 {
			m, werr := w.Write(buf[:n])
			total += int64(m)
			if werr != nil {
				return total, werr
			}
			if m < n {
				return total, io.ErrShortWrite
			}
		}
		if err == io.EOF {
			return total, nil
		}
		if err != nil {
			return total, err
		}
	}
}

func genLen(t *rapid.T) int {
	switch rapid.IntRange(0, 5).Draw(t, "len-class") {
	case 0:
		return rapid.IntRange(0, 3).Draw(t, "len")
	case 1:
		return rapid.SampledFrom([]int{511, 512, 513, 1023, 1024, 1025, 4095, 4096, 4097}).Draw(t, "len")
	case 2:
		return rapid.SampledFrom([]int{32767, 32768, 32769, 65535, 65536, 65537}).Draw(t, "len")
	case 3:
		return rapid.IntRange(0, 2000).Draw(t, "len")
	case 4:
		return rapid.IntRange(0, 100000).Draw(t, "len")
	default:
		return rapid.IntRange(0, 1<<20).Draw(t, "len")
	}
}

func genStream(t *rapid.T) StreamCase {
	c := StreamCase{Helper: rapid.SampledFrom([]string{"ReadAtMost", "ReadAtMost", "ReadAll", "CopyData", "CopyN", "CopyN", "NewByteReader", "ReaderFrom", "WriteString"}).Draw(t, "helper"), Len: genLen(t), ReadErrAt: -1, WriteErr: -1, CancelAt: -1}
	l := int64(c.Len)
	// (the largest maximum there is: "at most" with nothing to hold back; a maximum is a bound, not an amount to set aside)
	c.Max = rapid.SampledFrom([]int64{-1, 0, 1, l - 1, l, l + 1, 2 * l, l / 2, math.MaxInt64}).Draw(t, "max")
	c.BufCap = rapid.SampledFrom([]int64{-1, 0, 1, 512, l, l + 1}).Draw(t, "bufcap")
	if c.BufCap > 1<<21 {
		c.BufCap = 1 << 21
	}
	switch rapid.IntRange(0, 3).Draw(t, "chunking") {
	case 0:
	case 1:
		c.Chunks = []int{rapid.SampledFrom([]int{1, 7, 511, 512, 513, 4096, 32768}).Draw(t, "chunk")}
	default:
		c.Chunks = rapid.SliceOfN(rapid.IntRange(0, 5000), 1, 6).Draw(t, "chunks")
		zero := true
		for _, x := range c.Chunks {
			if x != 0 {
				zero = false
			}
		}
		if zero {
			c.Chunks = append(c.Chunks, 3)
		}
	}
	if c.Len > 50000 {
		for i := range c.Chunks {
			if c.Chunks[i] > 0 && c.Chunks[i] < 100 {
				c.Chunks[i] += 500
			}
		}
	}
	c.WriterTo = rapid.Bool().Draw(t, "writer-to")
	c.ReadFrom = rapid.Bool().Draw(t, "reader-from")
	if rapid.IntRange(0, 3).Draw(t, "short-writes") == 0 {
		c.WChunks = rapid.SliceOfN(rapid.IntRange(0, 3000), 1, 4).Draw(t, "wchunks")
	}
	switch rapid.IntRange(0, 5).Draw(t, "fault") {
	case 0:
		c.ReadErrAt = rapid.IntRange(0, c.Len).Draw(t, "read-err-at")
	case 1:
		c.WriteErr = rapid.IntRange(0, c.Len).Draw(t, "write-err-at")
	case 2, 3:
		c.CancelAt = rapid.IntRange(0, 12).Draw(t, "cancel-at")
		c.CancelOn = rapid.SampledFrom([]string{"read", "write"}).Draw(t, "cancel-on")
		c.Deadline = rapid.Bool().Draw(t, "deadline")
	}
	return c
}

type deadlineCtx struct {
	context.Context
	deadline *bool
}

func (d deadlineCtx) Err() error {
	if err := d.Context.Err(); err != nil && *d.deadline {
		return context.DeadlineExceeded
	}
	return d.Context.Err()
}

func checkStream(t ev.T, test string, c StreamCase) {
	src := treegen.Content{Len: c.Len, Kind: 2, Seed: 11}.Bytes()
	base, cancel := context.WithCancel(context.Background())
	defer cancel()
	ended := false
	isDeadline := c.Deadline
	ctx := deadlineCtx{base, &isDeadline}
	end := func() { ended = true; cancel() }
	r := &scriptR{c: &c, data: src, end: end, ended: &ended}
	w := &scriptW{c: &c, end: end, ended: &ended}
	var rd io.Reader = r
	if c.WriterTo {
		rd = scriptRWT{r}
	}
	var wr io.Writer = w
	if c.ReadFrom {
		wr = scriptWRF{w}
	}
	var out []byte
	var n int64
	var err error
	usesWriter := false
	ev.Guard(t, prop, test, c, func() {
		switch c.Helper {
		case "ReadAtMost":
			out, err = safeio.ReadAtMost(ctx, rd, c.Max, c.BufCap)
		case "ReadAll":
			out, err = safeio.ReadAll(ctx, rd)
		case "NewByteReader":
			// a context-aware reader over bytes, drained by a plain copy
			var b bytes.Buffer
			_, err = io.Copy(&b, safeio.NewContextualReader(ctx, rd))
			out = b.Bytes()
		case "ReaderFrom":
			// a context-aware ReaderFrom around a plain buffer, fed from the scripted source
			var b bytes.Buffer
			n, err = safeio.NewContextualReaderFrom(ctx, &b).ReadFrom(rd)
			out = b.Bytes()
		case "CopyData":
			usesWriter = true
			n, err = safeio.CopyDataWithContext(ctx, rd, wr)
			out = w.buf.Bytes()
		case "CopyN":
			usesWriter = true
			n, err = safeio.CopyNWithContext(ctx, rd, wr, c.Max)
			out = w.buf.Bytes()
		case "WriteString":
			usesWriter = true
			var k int
			k, err = safeio.WriteString(ctx, wr, string(src))
			n = int64(k)
			out = w.buf.Bytes()
		}
	})
	faulty := c.ReadErrAt >= 0 || (usesWriter && (c.WriteErr >= 0 || len(c.WChunks) > 0))
	cancelled := ended
	// every helper delivers a prefix of the source
	if len(out) > len(src) || !bytes.Equal(out, src[:len(out)]) {
		ev.Fail(t, prop, test, c, "%s delivered %d bytes which are not a prefix of the %d source bytes", c.Helper, len(out), len(src))
	}
	// no new read from the source once the context has ended
	if r.after > 0 {
		ev.Fail(t, prop, test, c, "%s started %d Read call(s) on the source after its context had ended", c.Helper, r.after)
	}
	// error kinds (the bare contextual reader hands out the context's own error: it is an io.Reader, not an operation of
	// the library that takes a context; only the prefix and no-further-read clauses apply to it)
	if err != nil && c.Helper != "NewByteReader" && c.Helper != "ReaderFrom" {
		okKind := commonerrors.Any(err, commonerrors.ErrCancelled, commonerrors.ErrTimeout, commonerrors.ErrEOF, commonerrors.ErrEmpty, errInjectedRead, errInjectedWrite, io.ErrShortWrite, commonerrors.ErrUnexpected)
		if !okKind {
			ev.Fail(t, prop, test, c, "%s returned %q: neither a context kind, the EOF kind nor the injected failure", c.Helper, err)
		}
		if commonerrors.Any(err, io.EOF, io.ErrUnexpectedEOF) && !commonerrors.Any(err, commonerrors.ErrEOF) {
			ev.Fail(t, prop, test, c, "%s returned the raw end-of-stream error %q instead of the 'EOF' kind", c.Helper, err)
		}
		if commonerrors.Any(err, context.Canceled, context.DeadlineExceeded) && !commonerrors.Any(err, commonerrors.ErrCancelled, commonerrors.ErrTimeout) {
			ev.Fail(t, prop, test, c, "%s returned the raw context error %q instead of the cancelled/timeout kind", c.Helper, err)
		}
		if cancelled && !faulty && !commonerrors.Any(err, commonerrors.ErrCancelled, commonerrors.ErrTimeout, commonerrors.ErrEOF, commonerrors.ErrEmpty) {
			ev.Fail(t, prop, test, c, "%s: the context ended during the call, result %q is not of the cancelled/timeout kind", c.Helper, err)
		}
	}
	want := src
	switch c.Helper {
	case "ReadAtMost":
		if c.Max >= 0 && int64(len(out)) > c.Max {
			ev.Fail(t, prop, test, c, "ReadAtMost(max=%d) returned %d bytes", c.Max, len(out))
		}
		if c.Max >= 0 && int64(len(want)) > c.Max {
			want = want[:c.Max]
		}
		fallthrough
	case "ReadAll", "NewByteReader", "ReaderFrom":
		if !faulty && !cancelled {
			if len(want) == 0 && c.Helper != "NewByteReader" && c.Helper != "ReaderFrom" {
				if err == nil && len(out) != 0 {
					ev.Fail(t, prop, test, c, "%s of nothing returned %d bytes", c.Helper, len(out))
				}
			} else if err != nil || !bytes.Equal(out, want) {
				ev.Fail(t, prop, test, c, "%s (no fault, no cancellation) returned %d bytes and %v, want the %d-byte prefix of the source", c.Helper, len(out), err, len(want))
			}
		}
	case "CopyData":
		if err == nil && (!bytes.Equal(out, src) || n != int64(len(src))) {
			ev.Fail(t, prop, test, c, "CopyDataWithContext returned nil but transferred %d bytes (reported %d) of %d", len(out), n, len(src))
		}
		if !faulty && !cancelled && err != nil {
			ev.Fail(t, prop, test, c, "CopyDataWithContext failed without fault or cancellation: %v", err)
		}
	case "CopyN":
		if c.Max >= 0 {
			if err == nil && (int64(len(out)) != c.Max || n != c.Max) {
				ev.Fail(t, prop, test, c, "CopyNWithContext(n=%d) returned nil but transferred %d bytes (reported %d)", c.Max, len(out), n)
			}
			if int64(len(out)) > c.Max {
				ev.Fail(t, prop, test, c, "CopyNWithContext(n=%d) transferred %d bytes", c.Max, len(out))
			}
			if !faulty && !cancelled && c.Max <= int64(len(src)) && err != nil {
				ev.Fail(t, prop, test, c, "CopyNWithContext(n=%d) of a %d-byte source failed without fault or cancellation: %v", c.Max, len(src), err)
			}
			if !faulty && !cancelled && c.Max > int64(len(src)) && !commonerrors.Any(err, commonerrors.ErrEOF) {
				ev.Fail(t, prop, test, c, "CopyNWithContext(n=%d) of a %d-byte source returned %v, want the 'EOF' kind", c.Max, len(src), err)
			}
		}
	case "WriteString":
		// (a writer that accepts fewer bytes than offered without reporting an error breaks the io.Writer contract itself)
		if err == nil && len(c.WChunks) == 0 && !bytes.Equal(out, src) {
			ev.Fail(t, prop, test, c, "WriteString returned nil but wrote %d of %d bytes", len(out), len(src))
		}
	}
}

func (c StreamCase) nontrivial() bool {
	return c.CancelAt >= 0 || c.ReadErrAt >= 0 || c.WriteErr >= 0 || len(c.WChunks) > 0 || len(c.Chunks) > 1
}

func TestStreams(t *testing.T) {
	rapid.Check(t, func(rt *rapid.T) {
		c := genStream(rt)
		key, _ := json.Marshal(c)
		cl := "stream/" + c.Helper
		if c.CancelAt >= 0 {
			cl += "/cancel-on-" + c.CancelOn
		}
		ev.Case(string(key), c.nontrivial(), cl, c)
		checkStream(rt, "TestStreams", c)
	})
}

// ---- limited file reads -------------------------------------------------------------------------------------------

type LimitCase struct {
	Backend string `json:"backend"`
	Len     int    `json:"file_len"`
	Limit   int64  `json:"max_file_size"`
}

func checkLimit(t ev.T, test string, c LimitCase) {
	box := fsbox.New(c.Backend)
	defer box.Close()
	p := box.Path("f.bin")
	data := treegen.Content{Len: c.Len, Kind: 2, Seed: 5}.Bytes()
	if err := afero.WriteFile(box.Raw, p, data, 0o644); err != nil {
		t.Fatalf("HARNESS: %v", err)
	}
	limits := filesystem.NewLimits(c.Limit, 1<<40, 1<<20, -1, false)
	var got []byte
	var err error
	ev.Guard(t, prop, test, c, func() { got, err = box.FS.ReadFileWithLimits(p, limits) })
	switch {
	case int64(c.Len) > c.Limit:
		if !commonerrors.Any(err, commonerrors.ErrTooLarge) {
			ev.Fail(t, prop, test, c, "ReadFileWithLimits of a %d-byte file with a limit of %d returned %d bytes and %v, want the 'too large' kind", c.Len, c.Limit, len(got), err)
		}
	case c.Len == 0:
		if err == nil && len(got) != 0 {
			ev.Fail(t, prop, test, c, "empty file: %d bytes returned", len(got))
		}
	default:
		if err != nil || !bytes.Equal(got, data) {
			ev.Fail(t, prop, test, c, "ReadFileWithLimits of a %d-byte file within the limit %d returned %d bytes and %v", c.Len, c.Limit, len(got), err)
		}
	}
	ctx, cancel := context.WithTimeout(context.Background(), time.Minute)
	defer cancel()
	got2, err2 := box.FS.ReadFileWithContextAndLimits(ctx, p, limits)
	if (err == nil) != (err2 == nil) || !bytes.Equal(got, got2) {
		ev.Fail(t, prop, test, c, "ReadFileWithLimits and ReadFileWithContextAndLimits disagree: %v / %v", err, err2)
	}
	if h := box.Backend.OpenHandles(); len(h) > 0 {
		ev.Fail(t, prop, test, c, "limited read left handles open: %v", h)
	}
}

func TestLimitedReads(t *testing.T) {
	rapid.Check(t, func(rt *rapid.T) {
		c := LimitCase{Backend: rapid.SampledFrom([]string{"mem", "os"}).Draw(rt, "backend"), Len: genLen(rt)}
		l := int64(c.Len)
		c.Limit = rapid.SampledFrom([]int64{1, l - 1, l, l + 1, 2 * l, 1 << 30}).Draw(rt, "limit")
		if c.Limit < 1 {
			c.Limit = 1
		}
		key, _ := json.Marshal(c)
		ev.Case(string(key), c.Limit >= l-1 && c.Limit <= l+1, "limited-read/"+c.Backend, c)
		checkLimit(rt, "TestLimitedReads", c)
	})
}

func init() {
	ev.RegisterReplay("TestStreams", func(t ev.T, raw json.RawMessage) {
		var c StreamCase
		if err := json.Unmarshal(raw, &c); err != nil {
			t.Fatalf("HARNESS: %v", err)
		}
		checkStream(t, "TestStreams", c)
	})
	ev.RegisterReplay("TestLimitedReads", func(t ev.T, raw json.RawMessage) {
		var c LimitCase
		if err := json.Unmarshal(raw, &c); err != nil {
			t.Fatalf("HARNESS: %v", err)
		}
		checkLimit(t, "TestLimitedReads", c)
	})
}

var _ = fmt.Sprint
var _ = testing.Short
