// Package c09 decides C09: cancellation is honoured everywhere; context-aware I/O yields exact prefixes.
package c09

import (
	"archive/zip"
	"bytes"
	"context"
	"encoding/json"
	"errors"
	"fmt"
	"os"
	"os/user"
	"path/filepath"
	"reflect"
	"sort"
	"strings"
	"sync"
	"sync/atomic"
	"syscall"
	"testing"
	"time"

	"github.com/spf13/afero"
	"pgregory.net/rapid"

	"github.com/ARM-software/golang-utils/utils/commonerrors"
	"github.com/ARM-software/golang-utils/utils/filesystem"

	"verif/internal/ev"
	"verif/internal/fsbox"
	"verif/internal/fsx"
	"verif/internal/treegen"
)

const prop = "C09"

func TestMain(m *testing.M) { ev.Main(m) }

// env is the sandbox of one run: a tree, an archive of it, a big file, and destinations.
type env struct {
	box  *fsbox.Box
	src  string // directory tree: Dirs x Files (+ one nested level)
	dst  string // missing destination
	zip  string // archive of the tree (written with archive/zip, not the library)
	big  string // a file of BigKB kilobytes
	list []string
}

type Shape struct {
	Dirs   int `json:"dirs"`
	Files  int `json:"files_per_dir"`
	BigKB  int `json:"big_file_kb"`
	Nested int `json:"nested_dirs"`
}

func buildEnv(kind string, sh Shape) *env {
	b := fsbox.New(kind)
	e := &env{box: b, src: b.Path("src"), dst: b.Path("dst"), zip: b.Path("a.zip"), big: b.Path("big.bin")}
	raw := b.Raw
	var zbuf bytes.Buffer
	zw := zip.NewWriter(&zbuf)
	content := bytes.Repeat([]byte("0123456789abcdef"), 8)
	// a run of directory entries in the archive: work that only the extraction loop itself can interrupt
	for x := 0; x < 10*sh.Dirs; x++ {
		_, _ = zw.Create(fmt.Sprintf("emptydirs/e%03d/", x))
	}
	for d := 0; d < sh.Dirs; d++ {
		dir := filepath.Join(e.src, fmt.Sprintf("d%02d", d))
		_ = raw.MkdirAll(dir, 0o755)
		_, _ = zw.Create(fmt.Sprintf("d%02d/", d))
		for f := 0; f < sh.Files; f++ {
			_ = afero.WriteFile(raw, filepath.Join(dir, fmt.Sprintf("f%02d.txt", f)), content, 0o644)
			w, _ := zw.Create(fmt.Sprintf("d%02d/f%02d.txt", d, f))
			_, _ = w.Write(content)
		}
		for n := 0; n < sh.Nested; n++ {
			sub := filepath.Join(dir, fmt.Sprintf("n%02d", n))
			_ = raw.MkdirAll(sub, 0o755)
			_ = afero.WriteFile(raw, filepath.Join(sub, "leaf.txt"), content, 0o644)
		}
	}
	_ = zw.Close()
	_ = afero.WriteFile(raw, e.zip, zbuf.Bytes(), 0o644)
	big := treegen.Content{Len: sh.BigKB * 1024, Kind: 2, Seed: 7}.Bytes()
	_ = afero.WriteFile(raw, e.big, big, 0o644)
	return e
}

// entry is one context-accepting entry point of the FS API.
type entry struct {
	name     string
	readOnly bool // must not mutate at all
	fanOut   bool // garbage collection: bound depends on the widest directory
	renameX  bool // make backend renames fail (EXDEV) so that the call takes its copy-and-remove path
	call     func(ctx context.Context, fs filesystem.FS, e *env) error
}

func nop(string, os.FileInfo, error) error { return nil }

var entries = []entry{
	{name: "CleanDirWithContext", call: func(ctx context.Context, fs filesystem.FS, e *env) error { return fs.CleanDirWithContext(ctx, e.src) }},
	{name: "CleanDirWithContextAndExclusionPatterns", call: func(ctx context.Context, fs filesystem.FS, e *env) error {
		return fs.CleanDirWithContextAndExclusionPatterns(ctx, e.src, "zzz")
	}},
	{name: "RemoveWithContext", call: func(ctx context.Context, fs filesystem.FS, e *env) error { return fs.RemoveWithContext(ctx, e.src) }},
	{name: "RemoveWithContextAndExclusionPatterns", call: func(ctx context.Context, fs filesystem.FS, e *env) error {
		return fs.RemoveWithContextAndExclusionPatterns(ctx, e.src, "zzz")
	}},
	{name: "RemoveWithPrivileges", call: func(ctx context.Context, fs filesystem.FS, e *env) error { return fs.RemoveWithPrivileges(ctx, e.src) }},
	{name: "WalkWithContext", readOnly: true, call: func(ctx context.Context, fs filesystem.FS, e *env) error { return fs.WalkWithContext(ctx, e.src, nop) }},
	{name: "WalkWithContextAndExclusionPatterns", readOnly: true, call: func(ctx context.Context, fs filesystem.FS, e *env) error {
		return fs.WalkWithContextAndExclusionPatterns(ctx, e.src, nop, "zzz")
	}},
	{name: "LsRecursive", readOnly: true, call: func(ctx context.Context, fs filesystem.FS, e *env) error {
		_, err := fs.LsRecursive(ctx, e.src, true)
		return err
	}},
	{name: "LsRecursiveWithExclusionPatterns", readOnly: true, call: func(ctx context.Context, fs filesystem.FS, e *env) error {
		_, err := fs.LsRecursiveWithExclusionPatterns(ctx, e.src, false, "zzz")
		return err
	}},
	{name: "LsRecursiveWithExclusionPatternsAndLimits", readOnly: true, call: func(ctx context.Context, fs filesystem.FS, e *env) error {
		_, err := fs.LsRecursiveWithExclusionPatternsAndLimits(ctx, e.src, filesystem.NoLimits(), true, "zzz")
		return err
	}},
	{name: "LsRecursiveFromOpenedDirectory", readOnly: true, call: func(ctx context.Context, fs filesystem.FS, e *env) error {
		f, err := fs.GenericOpen(e.src)
		if err != nil {
			return err
		}
		defer func() { _ = f.Close() }()
		_, err = fs.LsRecursiveFromOpenedDirectory(ctx, f, true)
		return err
	}},
	{name: "CopyToFileWithContext", call: func(ctx context.Context, fs filesystem.FS, e *env) error {
		return fs.CopyToFileWithContext(ctx, e.big, e.dst)
	}},
	{name: "CopyToDirectoryWithContext", call: func(ctx context.Context, fs filesystem.FS, e *env) error {
		return fs.CopyToDirectoryWithContext(ctx, e.src, e.dst)
	}},
	{name: "CopyWithContext", call: func(ctx context.Context, fs filesystem.FS, e *env) error {
		return fs.CopyWithContext(ctx, e.src, e.dst)
	}},
	{name: "CopyWithContextAndExclusionPatterns", call: func(ctx context.Context, fs filesystem.FS, e *env) error {
		return fs.CopyWithContextAndExclusionPatterns(ctx, e.src, e.dst, "zzz")
	}},
	{name: "MoveWithContext", renameX: true, call: func(ctx context.Context, fs filesystem.FS, e *env) error {
		return fs.MoveWithContext(ctx, e.src, e.dst)
	}},
	{name: "ReadFileWithContext", readOnly: true, call: func(ctx context.Context, fs filesystem.FS, e *env) error {
		_, err := fs.ReadFileWithContext(ctx, e.big)
		return err
	}},
	{name: "ReadFileWithContextAndLimits", readOnly: true, call: func(ctx context.Context, fs filesystem.FS, e *env) error {
		_, err := fs.ReadFileWithContextAndLimits(ctx, e.big, filesystem.NewLimits(1<<30, 1<<34, 1<<20, -1, false))
		return err
	}},
	{name: "ReadFileContent", readOnly: true, call: func(ctx context.Context, fs filesystem.FS, e *env) error {
		f, err := fs.GenericOpen(e.big)
		if err != nil {
			return err
		}
		defer func() { _ = f.Close() }()
		_, err = fs.ReadFileContent(ctx, f, filesystem.NoLimits())
		return err
	}},
	{name: "WriteFileWithContext", call: func(ctx context.Context, fs filesystem.FS, e *env) error {
		return fs.WriteFileWithContext(ctx, e.dst, treegen.Content{Len: 1 << 20, Kind: 2}.Bytes(), 0o644)
	}},
	{name: "WriteToFile", call: func(ctx context.Context, fs filesystem.FS, e *env) error {
		// a reader without WriteTo so that the copy goes chunk by chunk
		_, err := fs.WriteToFile(ctx, e.dst, onlyReader{bytes.NewReader(treegen.Content{Len: 1 << 20, Kind: 2}.Bytes())}, 0o644)
		return err
	}},
	{name: "GarbageCollectWithContext", fanOut: true, call: func(ctx context.Context, fs filesystem.FS, e *env) error {
		return fs.GarbageCollectWithContext(ctx, e.src, 0)
	}},
	{name: "ChmodRecursively", call: func(ctx context.Context, fs filesystem.FS, e *env) error {
		return fs.ChmodRecursively(ctx, e.src, 0o750)
	}},
	{name: "ChownRecursively", call: func(ctx context.Context, fs filesystem.FS, e *env) error {
		return fs.ChownRecursively(ctx, e.src, os.Getuid(), os.Getgid())
	}},
	{name: "ChangeOwnershipRecursively", call: func(ctx context.Context, fs filesystem.FS, e *env) error {
		u, err := user.Current()
		if err != nil {
			return err
		}
		return fs.ChangeOwnershipRecursively(ctx, e.src, u)
	}},
	{name: "SubDirectoriesWithContext", readOnly: true, call: func(ctx context.Context, fs filesystem.FS, e *env) error {
		_, err := fs.SubDirectoriesWithContext(ctx, e.src)
		return err
	}},
	{name: "SubDirectoriesWithContextAndExclusionPatterns", readOnly: true, call: func(ctx context.Context, fs filesystem.FS, e *env) error {
		_, err := fs.SubDirectoriesWithContextAndExclusionPatterns(ctx, e.src, "zzz")
		return err
	}},
	{name: "ListDirTreeWithContext", readOnly: true, call: func(ctx context.Context, fs filesystem.FS, e *env) error {
		var l []string
		return fs.ListDirTreeWithContext(ctx, e.src, &l)
	}},
	{name: "ListDirTreeWithContextAndExclusionPatterns", readOnly: true, call: func(ctx context.Context, fs filesystem.FS, e *env) error {
		var l []string
		return fs.ListDirTreeWithContextAndExclusionPatterns(ctx, e.src, &l, "zzz")
	}},
	{name: "ZipWithContext", call: func(ctx context.Context, fs filesystem.FS, e *env) error { return fs.ZipWithContext(ctx, e.src, e.dst) }},
	{name: "ZipWithContextAndLimits", call: func(ctx context.Context, fs filesystem.FS, e *env) error {
		return fs.ZipWithContextAndLimits(ctx, e.src, e.dst, filesystem.NoLimits())
	}},
	{name: "ZipWithContextAndLimitsAndExclusionPatterns", call: func(ctx context.Context, fs filesystem.FS, e *env) error {
		return fs.ZipWithContextAndLimitsAndExclusionPatterns(ctx, e.src, e.dst, filesystem.NoLimits(), "zzz")
	}},
	{name: "UnzipWithContext", call: func(ctx context.Context, fs filesystem.FS, e *env) error {
		_, err := fs.UnzipWithContext(ctx, e.zip, e.dst)
		return err
	}},
	{name: "UnzipWithContextAndLimits", call: func(ctx context.Context, fs filesystem.FS, e *env) error {
		_, err := fs.UnzipWithContextAndLimits(ctx, e.zip, e.dst, filesystem.NewLimits(1<<30, 1<<34, 1<<20, -1, true))
		return err
	}},
	{name: "FileHashWithContext", readOnly: true, call: func(ctx context.Context, fs filesystem.FS, e *env) error {
		_, err := fs.FileHashWithContext(ctx, "SHA256", e.big)
		return err
	}},
	{name: "IsZipWithContext", readOnly: true, call: func(ctx context.Context, fs filesystem.FS, e *env) error {
		_, err := fs.IsZipWithContext(ctx, e.zip)
		return err
	}},
}

type onlyReader struct{ r *bytes.Reader }

func (o onlyReader) Read(p []byte) (int, error) { return o.r.Read(p) }

func entryByName(n string) *entry {
	for i := range entries {
		if entries[i].name == n {
			return &entries[i]
		}
	}
	return nil
}

// TestEntryPointListIsComplete: every method of filesystem.FS whose first parameter is a context is in the table.
func TestEntryPointListIsComplete(t *testing.T) {
	ft := reflect.TypeOf((*filesystem.FS)(nil)).Elem()
	ctxType := reflect.TypeOf((*context.Context)(nil)).Elem()
	n := 0
	for i := 0; i < ft.NumMethod(); i++ {
		m := ft.Method(i)
		if m.Type.NumIn() > 0 && m.Type.In(0) == ctxType {
			n++
			if entryByName(m.Name) == nil {
				t.Fatalf("HARNESS: context-accepting method %s of filesystem.FS is not covered by the entry point table", m.Name)
			}
		}
	}
	if n != len(entries) {
		t.Fatalf("HARNESS: %d context-accepting methods in the interface, %d entries in the table", n, len(entries))
	}
	ev.Bulk(int64(n), int64(n), "entry-point-table")
}

// ---- (a) context already done at the call ------------------------------------------------------------------------------

type PreCase struct {
	Backend string `json:"backend"`
	Entry   string `json:"entry_point"`
	How     string `json:"how"` // cancelled | deadline
	Shape   Shape  `json:"shape"`
	// Src: what stands at the path the call is given: "" the directory tree, link = a symbolic link to it (OS backend),
	// file = a regular file, emptydir = an empty directory, missing = nothing
	Src string `json:"source_is,omitempty"`
}

func checkPre(t ev.T, test string, c PreCase) {
	ep := entryByName(c.Entry)
	e := buildEnv(c.Backend, c.Shape)
	defer e.box.Close()
	if c.Src != "" {
		real := e.src + "-real"
		if err := e.box.Raw.Rename(e.src, real); err != nil {
			t.Fatalf("HARNESS: %v", err)
		}
		var serr error
		switch c.Src {
		case "link":
			serr = os.Symlink(real, e.src)
		case "file":
			serr = afero.WriteFile(e.box.Raw, e.src, []byte("a file"), 0o644)
		case "emptydir":
			serr = e.box.Raw.MkdirAll(e.src, 0o755)
		}
		if serr != nil {
			t.Fatalf("HARNESS: %v", serr)
		}
	}
	var ctx context.Context
	var cancel context.CancelFunc
	switch c.How {
	case "deadline":
		ctx, cancel = context.WithDeadline(context.Background(), time.Now().Add(-time.Second))
	case "deadline-with-cause":
		// (a context that carries a cause of its own is still a context that timed out)
		ctx, cancel = context.WithDeadlineCause(context.Background(), time.Now().Add(-time.Second), errors.New("the caller's own reason"))
	case "cancelled-with-cause":
		var cc context.CancelCauseFunc
		ctx, cc = context.WithCancelCause(context.Background())
		cc(errors.New("the caller's own reason"))
		cancel = func() {}
	default:
		ctx, cancel = context.WithCancel(context.Background())
		cancel()
	}
	defer cancel()
	before := e.box.Snap()
	e.box.Backend.Reset()
	var err error
	ev.Guard(t, prop, test, c, func() { err = ep.call(ctx, e.box.FS, e) })
	want := commonerrors.ErrCancelled
	if strings.HasPrefix(c.How, "deadline") {
		want = commonerrors.ErrTimeout
	}
	if !commonerrors.Any(err, want) {
		ev.Fail(t, prop, test, c, "%s called with a context that is already done (%s) returned %v, want the %v kind", c.Entry, c.How, err, want)
	}
	if n := e.box.Backend.MutationCount(); n != 0 {
		var muts []string
		for _, op := range e.box.Backend.Ops() {
			if op.Mutating {
				muts = append(muts, op.String())
			}
		}
		ev.Fail(t, prop, test, c, "%s called with a context that is already done performed %d mutating backend operations: %v", c.Entry, n, muts)
	}
	if d := treegen.Diff(before, e.box.Snap(), treegen.DiffOptions{}); len(d) > 0 {
		ev.Fail(t, prop, test, c, "%s called with a context that is already done changed the tree: %v", c.Entry, d)
	}
}

func genShape(t *rapid.T) Shape {
	files := rapid.IntRange(3, 16).Draw(t, "files")
	dirs := rapid.IntRange(3, 14).Draw(t, "dirs")
	// wide directories: the work left inside ONE directory after a cancellation must be bounded too
	if rapid.IntRange(0, 7).Draw(t, "wide") == 0 {
		files, dirs = rapid.SampledFrom([]int{90, 150, 240}).Draw(t, "wide-files"), rapid.IntRange(4, 6).Draw(t, "wide-dirs")
	}
	return Shape{Dirs: dirs, Files: files, BigKB: rapid.SampledFrom([]int{256, 1024, 4096}).Draw(t, "bigkb"), Nested: rapid.IntRange(0, 2).Draw(t, "nested")}
}

func TestAlreadyDone(t *testing.T) {
	rapid.Check(t, func(rt *rapid.T) {
		c := PreCase{Backend: rapid.SampledFrom([]string{"mem", "mem", "os"}).Draw(rt, "backend"), Entry: entries[rapid.IntRange(0, len(entries)-1).Draw(rt, "entry")].name,
			How: rapid.SampledFrom([]string{"cancelled", "deadline", "cancelled-with-cause", "deadline-with-cause"}).Draw(rt, "how"), Shape: Shape{Dirs: rapid.IntRange(1, 4).Draw(rt, "dirs"), Files: rapid.IntRange(1, 4).Draw(rt, "files"), BigKB: 64}}
		c.Src = rapid.SampledFrom([]string{"", "", "link", "file", "emptydir", "missing"}).Draw(rt, "source-is")
		if (c.Src == "link" && c.Backend != "os") || (c.Src == "missing" && c.Entry == "LsRecursiveFromOpenedDirectory") {
			c.Src = ""
		}
		key, _ := json.Marshal(c)
		ev.Case(string(key), true, "pre/"+c.Entry, c)
		checkPre(rt, "TestAlreadyDone", c)
	})
}

// TestAlreadyDoneAll enumerates entry point x how x backend completely.
func TestAlreadyDoneAll(t *testing.T) {
	var n int64
	for _, ep := range entries {
		for _, how := range []string{"cancelled", "deadline", "cancelled-with-cause", "deadline-with-cause"} {
			for _, b := range []string{"mem", "os"} {
				for _, src := range []string{"", "link", "file", "emptydir", "missing"} {
					if src == "link" && b != "os" {
						continue
					}
					if src == "missing" && ep.name == "LsRecursiveFromOpenedDirectory" {
						continue // there is nothing to open (the harness opens the directory before the call)
					}
					pc := PreCase{Backend: b, Entry: ep.name, How: how, Shape: Shape{Dirs: 3, Files: 3, BigKB: 64, Nested: 1}, Src: src}
					if os.Getenv("C09_LIST") != "" {
						if ok, msg := ev.RunIsolated(func(it ev.T) { checkPre(it, "TestAlreadyDone", pc) }); !ok {
							fmt.Println("PRE-FAIL", src, b, msg)
						}
						continue
					}
					checkPre(t, "TestAlreadyDone", pc)
					n++
				}
			}
		}
	}
	ev.Bulk(n, n, "pre/enumerated")
	ev.Exhaustive("context already done: entry point x {cancelled, deadline} x backend")
}

// ---- (b) context ending after the k-th backend operation ----------------------------------------------------------------

type MidCase struct {
	Backend string  `json:"backend"`
	Entry   string  `json:"entry_point"`
	Shape   Shape   `json:"shape"`
	Frac    float64 `json:"cancel_at_fraction"` // of the operations of an uncancelled run
	After   bool    `json:"cancel_after_the_operation"`
	K       int64   `json:"k,omitempty"` // filled in by the check
	Total   int64   `json:"total_ops,omitempty"`
}

const (
	// backend operations tolerated after the context ended: the worst observed on the unchanged tree is 29 (an in-flight
	// removal finishing its existence / emptiness probes), against hundreds to thousands of remaining operations
	bOps = 48
	bMut = 3 // mutating ones among them (observed: 1; zip: 4, the archive's central directory being flushed on close)
)

func exdev(op *fsx.Op, _ int64) *fsx.Fault {
	if op.Kind == "rename" {
		return &fsx.Fault{Kind: "error", Err: &os.LinkError{Op: "rename", Old: op.Path, New: op.Path2, Err: syscall.EXDEV}}
	}
	return nil
}

func checkMid(t ev.T, test string, c MidCase) MidCase {
	ep := entryByName(c.Entry)
	// reference run: how much work is the whole call?
	ref := buildEnv(c.Backend, c.Shape)
	if ep.renameX {
		ref.box.Backend.FaultAt = exdev
	}
	ref.box.Backend.KeepOps(false)
	ref.box.Backend.Reset()
	rerr := ep.call(context.Background(), ref.box.FS, ref)
	total := ref.box.Backend.OpCount()
	ref.box.Close()
	if rerr != nil {
		ev.Fail(t, prop, test, c, "%s failed without any cancellation: %v", c.Entry, rerr)
	}
	c.Total = total
	if total < 4 {
		ev.Inconclusive("entry point performs fewer than 4 backend operations: " + c.Entry)
		return c
	}
	k := int64(float64(total) * c.Frac)
	if k < 1 {
		k = 1
	}
	if k >= total {
		k = total - 1
	}
	c.K = k
	e := buildEnv(c.Backend, c.Shape)
	defer e.box.Close()
	if ep.renameX {
		e.box.Backend.FaultAt = exdev
	}
	ctx, cancel := context.WithCancel(context.Background())
	defer cancel()
	var count, after, mutAfter atomic.Int64
	var cancelled atomic.Bool
	var lateOps []string
	var lateMu sync.Mutex
	e.box.Backend.KeepOps(false)
	e.box.Backend.Before = func(op *fsx.Op) {
		n := count.Add(1)
		if cancelled.Load() {
			after.Add(1)
		}
		if !c.After && n == k {
			cancel()
			cancelled.Store(true)
		}
	}
	e.box.Backend.After = func(op *fsx.Op) {
		if cancelled.Load() && op.Mutating && op.Err == "" && op.Seq > 0 {
			if c.After || count.Load() > k { // the operation during which the context ended is not "after"
				mutAfter.Add(1)
			}
		}
		if cancelled.Load() {
			lateMu.Lock()
			if len(lateOps) < 60 {
				lateOps = append(lateOps, strings.ReplaceAll(op.String(), e.box.Root, ""))
			}
			lateMu.Unlock()
		}
		if c.After && count.Load() == k && !cancelled.Load() {
			cancel()
			cancelled.Store(true)
		}
	}
	e.box.Backend.Reset()
	var err error
	ev.Guard(t, prop, test, c, func() { err = ep.call(ctx, e.box.FS, e) })
	e.box.Backend.Before, e.box.Backend.After = nil, nil
	if !cancelled.Load() {
		ev.Inconclusive("the run was shorter than the reference run: cancellation point not reached")
		return c
	}
	remaining := total - k
	post := after.Load()
	limit := int64(bOps)
	need := 10 * limit
	mutLimit := int64(bMut)
	if ep.fanOut {
		// garbage collection runs one goroutine per directory entry, each of which may finish the item it is working on
		// (observed: 106 operations for 10 directories of 3 files); the bound grows with the fan-out, not with the work left
		limit = int64(16 + 12*(c.Shape.Dirs+c.Shape.Files+c.Shape.Nested+1))
		need = 3 * limit
		// ... and each of them may already be past its last look at the context when it ends: one removal per item in
		// flight (7 seen once in six million thorough cases, with 9 directories of 6 entries in flight)
		mutLimit = int64(bMut + c.Shape.Dirs + c.Shape.Files + c.Shape.Nested + 1)
	}
	if strings.HasPrefix(c.Entry, "Zip") {
		mutLimit = 8 + int64(c.Shape.Dirs*(c.Shape.Files+c.Shape.Nested+1))/40 // central directory: ~100 bytes per entry, flushed in 4 KiB writes
	}
	if os.Getenv("C09_CALIBRATE") != "" {
		fmt.Printf("CALIB %s %s post=%d mut=%d total=%d k=%d dirs=%d files=%d nested=%d\n", c.Entry, c.Backend, post, mutAfter.Load(), total, k, c.Shape.Dirs, c.Shape.Files, c.Shape.Nested)
		return c
	}
	ev.MetricMax("max-ops-after-cancel/"+c.Entry, float64(post))
	ev.MetricMax("max-mutations-after-cancel/"+c.Entry, float64(mutAfter.Load()))
	if remaining >= need {
		if post > limit {
			ev.Fail(t, prop, test, c, "%s: context ended at backend operation %d of %d; %d further backend operations were performed (bound %d); first ones: %v", c.Entry, k, total, post, limit, lateOps)
		}
		if m := mutAfter.Load(); m > mutLimit {
			ev.Fail(t, prop, test, c, "%s: context ended at backend operation %d of %d; %d further mutating operations were performed (bound %d): %v", c.Entry, k, total, m, mutLimit, lateOps)
		}
		if !commonerrors.Any(err, commonerrors.ErrCancelled, commonerrors.ErrTimeout) {
			ev.Fail(t, prop, test, c, "%s: context ended at backend operation %d of %d but the call returned %v, want the cancelled/timeout kind", c.Entry, k, total, err)
		}
		ev.Class("mid-asserted/" + c.Entry)
	} else {
		if err != nil && !commonerrors.Any(err, commonerrors.ErrCancelled, commonerrors.ErrTimeout) {
			ev.Fail(t, prop, test, c, "%s: context ended near the end of the run (operation %d of %d); the call returned %v, neither nil nor cancelled/timeout", c.Entry, k, total, err)
		}
		ev.Class("mid-too-close-to-the-end/" + c.Entry)
	}
	return c
}

func maxInt(a, b int) int {
	if a > b {
		return a
	}
	return b
}

func TestCancelMidway(t *testing.T) {
	rapid.Check(t, func(rt *rapid.T) {
		c := MidCase{Backend: rapid.SampledFrom([]string{"mem", "mem", "mem", "os"}).Draw(rt, "backend"), Entry: entries[rapid.IntRange(0, len(entries)-1).Draw(rt, "entry")].name,
			Shape: genShape(rt), Frac: rapid.Float64Range(0.0, 0.98).Draw(rt, "fraction"), After: rapid.Bool().Draw(rt, "after")}
		key, _ := json.Marshal(c)
		ev.Case(string(key), true, "mid/"+c.Backend, c)
		checkMid(rt, "TestCancelMidway", c)
	})
}

func replayPre(t ev.T, raw json.RawMessage) {
	var c PreCase
	if err := json.Unmarshal(raw, &c); err != nil {
		t.Fatalf("HARNESS: %v", err)
	}
	checkPre(t, "TestAlreadyDone", c)
}

func replayMid(t ev.T, raw json.RawMessage) {
	var c MidCase
	if err := json.Unmarshal(raw, &c); err != nil {
		t.Fatalf("HARNESS: %v", err)
	}
	checkMid(t, "TestCancelMidway", c)
}

func init() {
	ev.RegisterReplay("TestAlreadyDone", replayPre)
	ev.RegisterReplay("TestCancelMidway", replayMid)
	sort.Slice(entries, func(i, j int) bool { return entries[i].name < entries[j].name })
}

func TestReplay(t *testing.T)      { ev.RunReplay(t) }
func TestRegressions(t *testing.T) { ev.Regressions(t, prop) }
