// Package c02 decides C02: Unzip never writes outside the destination (zip-slip).
package c02

import (
	"bytes"
	"context"
	"encoding/json"
	"fmt"
	"os"
	"path"
	"path/filepath"
	"strings"
	"testing"
	"unicode/utf8"

	"github.com/spf13/afero"
	"pgregory.net/rapid"

	"github.com/ARM-software/golang-utils/utils/commonerrors"
	"github.com/ARM-software/golang-utils/utils/filesystem"

	"verif/internal/ev"
	"verif/internal/fsbox"
	"verif/internal/fsx"
	"verif/internal/treegen"
	"verif/internal/zipgen"
)

const prop = "C02"

func TestMain(m *testing.M) { ev.Main(m) }

type Case struct {
	Backend string         `json:"backend"` // mem | os
	Archive zipgen.Archive `json:"archive"`
	Dest    string         `json:"dest_spelling"` // abs | abs/ | abs// | rel | ./rel | rel/ | x/../rel | abs-nonascii | dotdot | dotdot2 | dot | empty | dotslash (the working directory itself)
	Limits  string         `json:"limits"`        // none | nonrecursive | recursive
}

// ---- names --------------------------------------------------------------------------------------------

var benign = []string{"a", "b", "c", "dir", "sub", "file.txt", "data.bin", "x1", "readme", "lib", "src", "e", "f.c", "g.h"}

var hostile = [][]byte{
	[]byte(".."), []byte("../"), []byte("/.."), []byte("./"), []byte("//"), []byte("\\"), []byte("..\\"), []byte("/"), []byte("C:"), []byte("C:\\"), []byte("."),
	[]byte(""), []byte("..."), []byte("..a"), []byte("a.."), []byte(" .."), []byte(".. "), []byte("\x01"), []byte("\x7f"), []byte("\t"),
	[]byte("\xff"), []byte("\x80"), []byte("\xc0\xaf"), []byte("\xe0\x80\xaf"), []byte("\xc0\xae\xc0\xae"), []byte("\xfe\xff"), []byte("\xff\xfe"), []byte("\xef\xbb\xbf"),
	// transcoding gadgets: stateful encodings whose decoders swallow bytes
	[]byte("\x1b(B"), []byte("\x1b(J"), []byte("\x1b$B"), []byte("\x1b$@"), []byte("\x1b$)C"), []byte("\x0e"), []byte("\x0f"), []byte("~{"), []byte("~}"), []byte("~\n"),
	[]byte("\x81\\"), []byte("\x81."), []byte("\x8f."), []byte("\xa1."), []byte("\xa1\\"), []byte("\x81/"), []byte("\xe5\\"),
	[]byte(".\x1b(B."), []byte(".\x1b(J."), []byte(".\x0f."), []byte(".~}."), []byte(".\x1b(B./"), []byte("\x1b$B..\x1b(B"),
	[]byte("...zip"), []byte("..zip"), []byte(".zip"), []byte("x.zip"), []byte("..7z"), []byte("...gz"), []byte("...jar"),
	[]byte("...tar.gz"), []byte("...tar.zip"), []byte("...zip.zip"), []byte("...ZIP"), []byte("x.tar.gz"),
	// siblings of the destination whose names begin with the destination's name (a containment test by plain string
	// prefix accepts them): the sandbox has <parent>/dest-sibling/, and the archive may create dest2, destx ...
	[]byte("/../"), []byte("/../../"), []byte("//../"), []byte("/x/../../"),
	[]byte("../dest-sibling/"), []byte("../dest2"), []byte("../destx/"), []byte("dest-sibling"), []byte("dest2"),
	[]byte(".\x1b(B./dest-sibling/"), []byte(".\x1b(B./dest2"), []byte(".\x1b(J./destx/"), []byte(".\x0f./dest-sibling/"),
	// ... and names that, once converted, designate something that EXISTS next to the destination (what a clean-up of a
	// refused entry must not touch)
	[]byte(".\x1b(B./sibling.txt"), []byte(".\x1b(B./dest-sibling/s.txt"), []byte(".\x1b(B./dest-sibling"), []byte("\x80/.\x1b(B./.\x1b(B./sibling.txt"),
	[]byte(".\x1b(J./sibling.txt"), []byte("x1/.\x1b(B./.\x1b(B./dest-sibling/s.txt"),
	// ... and names that leave the destination and come back into it through the very same directories: they resolve inside
	[]byte("../dest/"), []byte("../dest"), []byte("../../work/dest/"), []byte("x/../../dest/re"), []byte("../../work/dest-sibling/"), []byte("../../work2/dest/"),
	[]byte("../d\xc3\xa9 st \xe6\x97\xa5\xe6\x9c\xac-sibling/"), []byte(".\x1b(B./d\xc3\xa9 st \xe6\x97\xa5\xe6\x9c\xac-sibling/"),
}

func genName(t *rapid.T, label string) ([]byte, bool) {
	if rapid.IntRange(0, 2).Draw(t, label+"-benign") == 0 {
		n := rapid.IntRange(1, 3).Draw(t, label+"-depth")
		var parts []string
		for i := 0; i < n; i++ {
			parts = append(parts, rapid.SampledFrom(benign).Draw(t, fmt.Sprintf("%s-b%d", label, i)))
		}
		return []byte(strings.Join(parts, "/")), false
	}
	var out []byte
	n := rapid.IntRange(1, 7).Draw(t, label+"-frags")
	for i := 0; i < n; i++ {
		switch rapid.IntRange(0, 3).Draw(t, fmt.Sprintf("%s-fk%d", label, i)) {
		case 0:
			out = append(out, rapid.SampledFrom(benign).Draw(t, fmt.Sprintf("%s-fb%d", label, i))...)
		case 1:
			out = append(out, '/')
		default:
			out = append(out, rapid.SampledFrom(hostile).Draw(t, fmt.Sprintf("%s-fh%d", label, i))...)
		}
	}
	out = bytes.ReplaceAll(out, []byte{0}, []byte{'0'})
	return out, true
}

func genArchive(t *rapid.T, label string, depth int) (zipgen.Archive, bool) {
	var a zipgen.Archive
	anyHostile := false
	n := rapid.IntRange(1, 8).Draw(t, label+"-entries")
	for i := 0; i < n; i++ {
		name, h := genName(t, fmt.Sprintf("%s-n%d", label, i))
		e := zipgen.Entry{Name: name}
		if h {
			anyHostile = true
		}
		switch rapid.IntRange(0, 9).Draw(t, fmt.Sprintf("%s-kind%d", label, i)) {
		case 0, 1:
			e.Dir = true
			if len(e.Name) == 0 || e.Name[len(e.Name)-1] != '/' {
				e.Name = append(e.Name, '/')
			}
		case 2:
			if depth < 3 {
				nested, nh := genArchive(t, fmt.Sprintf("%s-nest%d", label, i), depth+1)
				e.Nested = &nested
				anyHostile = anyHostile || nh
				// nested archives carry a zip-like name; hostile stems included
				ext := rapid.SampledFrom([]string{".zip", ".zip", ".jar", ".ZIP", ".gz", ".7z"}).Draw(t, fmt.Sprintf("%s-ext%d", label, i))
				if rapid.IntRange(0, 3).Draw(t, fmt.Sprintf("%s-hstem%d", label, i)) == 0 {
					stem := rapid.SampledFrom([]string{"..", ".", "", "...", "a/..", "../x", "sub/..", "...tar", "..tar", "...zip", "...."}).Draw(t, fmt.Sprintf("%s-stem%d", label, i))
					e.Name = []byte(stem + ext)
					anyHostile = true
				} else {
					e.Name = append(e.Name, ext...)
				}
			}
		}
		if !e.Dir && e.Nested == nil {
			e.Payload = treegen.Content{Len: rapid.IntRange(0, 300).Draw(t, fmt.Sprintf("%s-len%d", label, i)), Kind: 1, Seed: uint64(i)}
		}
		if !e.Dir && e.Nested == nil && rapid.IntRange(0, 11).Draw(t, fmt.Sprintf("%s-symlink%d", label, i)) == 0 {
			// an entry of kind symbolic link (its content is the target): whatever is made of it, nothing outside the
			// destination may be touched, also by the entries that come after it and go "through" it
			e.Mode = uint32(os.ModeSymlink | 0o777)
			e.Literal = []byte(rapid.SampledFrom([]string{"..", "../..", "../../..", "/", "../dest-sibling", "../../canarydir", "../../canarydir/inner", "../../canary.txt", "."}).Draw(t, fmt.Sprintf("%s-target%d", label, i)))
			anyHostile = true
			if rapid.Bool().Draw(t, fmt.Sprintf("%s-through%d", label, i)) {
				// followed by an entry below it
				e.NameQ = zipgen.Q(e.Name)
				a.Entries = append(a.Entries, e)
				below := zipgen.Entry{Name: append(append([]byte{}, bytes.TrimRight(e.Name, "/")...), []byte("/evil.txt")...), Payload: treegen.Content{Len: 20, Kind: 1, Seed: 99}}
				below.NameQ = zipgen.Q(below.Name)
				a.Entries = append(a.Entries, below)
				continue
			}
		}
		e.NameQ = zipgen.Q(e.Name)
		a.Entries = append(a.Entries, e)
	}
	return a, anyHostile
}

// ---- reference resolution --------------------------------------------------------------------------------

// resolve folds an entry name below a base (list of components below dest): returns the resulting
// components, or escaped=true if the name leaves the destination, as filepath.Join documents.
// destParts: the components of the absolute destination path (set by the check). Resolution is lexical, as path cleaning
// is: a name that leaves the destination and comes back into it ("../dest/x", "../other/../dest/x" for a destination called
// dest) resolves inside it and is not an entry "that would resolve outside the destination".
var destParts []string

func resolve(base []string, name []byte) (out []string, escaped bool) {
	stack := append(append([]string{}, destParts...), base...)
	for _, c := range strings.Split(string(name), "/") {
		switch c {
		case "", ".":
		case "..":
			if len(stack) > 0 {
				stack = stack[:len(stack)-1]
			}
		default:
			stack = append(stack, c)
		}
	}
	if len(stack) < len(destParts) {
		return nil, true
	}
	for i, p := range destParts {
		if stack[i] != p {
			return nil, true
		}
	}
	return append([]string{}, stack[len(destParts):]...), false
}

var zipExts = []string{".zip", ".zipx", ".7z", ".s7z", ".gz", ".tar.gz", ".tgz", ".xz", ".lz", ".lzma", ".rz", ".pack", ".z", ".jar"}

func zipNamed(n string) bool {
	ext := strings.ToLower(path.Ext(n))
	for _, z := range zipExts {
		if ext == z {
			return true
		}
	}
	return false
}

// wouldEscape walks the described archive the way a correct extractor would and reports whether some
// entry resolves outside the destination, and whether every entry that precedes the first such entry
// (in extraction order) is harmless (benign names, no conflicts) so that nothing else can fail first.
func wouldEscape(a *zipgen.Archive, base []string, recursive bool, seen map[string]string, clean *bool) bool {
	for i := range a.Entries {
		e := &a.Entries[i]
		res, esc := resolve(base, e.Name)
		if esc {
			return true
		}
		key := strings.Join(res, "/")
		kind := "file"
		if e.Dir {
			kind = "dir"
		}
		if !utf8.Valid(e.Name) || bytes.ContainsAny(e.Name, "\\\x1b\x0e\x0f~") || len(res) == len(base) || hasOddComponent(e.Name) {
			*clean = false
		}
		// conflicts: same path twice with different kinds, or a file used as a directory
		if k, ok := seen[key]; ok && (k != kind || kind == "file") {
			*clean = false
		}
		for j := 1; j < len(res); j++ {
			pk := strings.Join(res[:j], "/")
			if seen[pk] == "file" {
				*clean = false
			}
			if _, ok := seen[pk]; !ok {
				seen[pk] = "dir" // implicit parent
			}
		}
		seen[key] = kind
		if e.Nested != nil && recursive && zipNamed(string(e.Name)) && len(res) > 0 {
			last := res[len(res)-1]
			stem := strings.TrimSuffix(last, path.Ext(last))
			nb, esc := resolve(res[:len(res)-1], []byte(stem))
			if esc {
				return true
			}
			if stem == "" || stem == "." {
				*clean = false
			}
			if wouldEscape(e.Nested, nb, recursive, seen, clean) {
				return true
			}
		} else if zipNamed(string(e.Name)) {
			*clean = false // zip-named: the library probes its content
		}
	}
	return false
}

func hasOddComponent(name []byte) bool {
	for _, c := range strings.Split(string(name), "/") {
		if c == "." || c == ".." || len(c) > 200 || strings.ContainsAny(c, "\x01\x7f\t\n") || strings.Contains(c, "..") {
			return true
		}
	}
	return len(name) == 0 || name[0] == '/'
}

// ---- the check ------------------------------------------------------------------------------------------------

func destSpelling(kind string, destAbs, cwdAbs string) string {
	rel, _ := filepath.Rel(cwdAbs, destAbs)
	switch kind {
	case "abs/":
		return destAbs + "/"
	case "abs//":
		return destAbs + "//"
	case "rel":
		return rel
	case "./rel":
		return "./" + rel
	case "rel/":
		return rel + "/"
	case "x/../rel":
		return "x/../" + rel
	}
	return destAbs
}

func checkCase(t ev.T, test string, c Case) {
	box := fsbox.New(c.Backend)
	defer box.Close()
	raw := box.Raw
	cwd := box.Path("cwd")
	destName := "dest"
	if c.Dest == "abs-nonascii" {
		destName = "dé st 日本"
	}
	destAbs := box.Path("cwd", "work", destName)
	must := func(err error) {
		if err != nil {
			t.Fatalf("HARNESS: %v", err)
		}
	}
	must(raw.MkdirAll(box.Path("cwd", "work"), 0o755))
	must(raw.MkdirAll(box.Path("canarydir", "inner"), 0o755))
	must(afero.WriteFile(raw, box.Path("canary.txt"), []byte("canary"), 0o644))
	must(afero.WriteFile(raw, box.Path("canarydir", "inner", "precious.txt"), []byte("precious"), 0o644))
	must(afero.WriteFile(raw, box.Path("cwd", "evil"), []byte("pre-existing file named evil"), 0o644))
	must(afero.WriteFile(raw, box.Path("cwd", "work", "sibling.txt"), []byte("sibling"), 0o644))
	must(raw.MkdirAll(box.Path("cwd", "work", destName+"-sibling"), 0o755))
	must(afero.WriteFile(raw, box.Path("cwd", "work", destName+"-sibling", "s.txt"), []byte("s"), 0o644))
	must(raw.MkdirAll(box.Path("archives"), 0o755))
	data, err := c.Archive.Render()
	must(err)
	arch := box.Path("archives", "a.zip")
	must(afero.WriteFile(raw, arch, data, 0o644))

	dest := destSpelling(c.Dest, destAbs, cwd)
	if c.Dest == "dotdot" || c.Dest == "dotdot2" {
		// a destination spelled with parent references only: the working directory lies inside the destination
		must(raw.MkdirAll(filepath.Join(destAbs, "in", "ner"), 0o755))
		cwd, dest = filepath.Join(destAbs, "in"), ".."
		if c.Dest == "dotdot2" {
			cwd, dest = filepath.Join(destAbs, "in", "ner"), "../.."
		}
		if c.Backend != "os" {
			dest = destAbs
		}
	}
	if c.Dest == "dot" || c.Dest == "empty" || c.Dest == "dotslash" {
		// extraction into the working directory itself
		must(raw.MkdirAll(destAbs, 0o755))
		cwd, dest = destAbs, map[string]string{"dot": ".", "empty": "", "dotslash": "./"}[c.Dest]
		if c.Backend != "os" {
			dest = destAbs
		}
	}
	if c.Backend == "os" {
		must(os.Chdir(cwd))
		defer func() { _ = os.Chdir(os.TempDir()) }()
	} else if !filepath.IsAbs(dest) {
		// the in-memory backend has no working directory: relative spellings are resolved by us against cwd
		dest = destSpelling(strings.Replace(c.Dest, "rel", "abs", 1), destAbs, cwd)
		if strings.HasPrefix(c.Dest, "x/../") {
			dest = filepath.Dir(destAbs) + "/x/../" + filepath.Base(destAbs)
		}
	}
	before := box.Snap()
	box.Backend.Reset()
	var limits filesystem.ILimits
	switch c.Limits {
	case "nonrecursive":
		limits = filesystem.NewLimits(1<<30, 1<<34, 1<<20, -1, false)
	case "recursive":
		limits = filesystem.NewLimits(1<<30, 1<<34, 1<<20, -1, true)
	}
	var uerr error
	var list []string
	ev.Guard(t, prop, test, c, func() {
		if limits == nil {
			list, uerr = box.FS.Unzip(arch, dest)
		} else {
			list, uerr = box.FS.UnzipWithContextAndLimits(context.Background(), arch, dest, limits)
		}
	})
	_ = list
	// (a) effect containment from the operation log
	for _, op := range box.Backend.Ops() {
		if !op.Mutating || op.Err != "" {
			continue // a refused operation has no effect
		}
		for _, p := range []string{op.Path, op.Path2} {
			if p == "" || (op.Kind == "symlink" && p == op.Path2) {
				continue
			}
			r := fsx.Abs(cwd, p)
			if fsx.Inside(destAbs, r) {
				continue
			}
			if (op.Kind == "mkdir" || op.Kind == "mkdirall") && fsx.Inside(r, destAbs) {
				continue // creation of the destination's missing ancestors
			}
			ev.Fail(t, prop, test, c, "backend operation outside the destination %q: %s (resolved %q); Unzip returned %v", destAbs, op, r, uerr)
		}
	}
	// (b) independent snapshot: nothing but the destination changed
	after := box.Snap()
	destRel, _ := filepath.Rel(box.Root, destAbs)
	diffs := treegen.Diff(before, after, treegen.DiffOptions{Except: []string{filepath.ToSlash(destRel)}, IgnoreDirTimes: true})
	if len(diffs) > 0 {
		ev.Fail(t, prop, test, c, "entries outside the destination changed: %v; Unzip returned %v", diffs, uerr)
	}
	if len(box.Backend.OpenHandles()) > 0 {
		ev.Class("handles-left-open(not asserted here, see C06)")
	}
	// (c) verdict
	seen := map[string]string{}
	clean := true
	destParts = nil
	for _, p := range strings.Split(filepath.Clean(destAbs), string(filepath.Separator)) {
		if p != "" {
			destParts = append(destParts, p)
		}
	}
	esc := wouldEscape(&c.Archive, nil, c.Limits == "recursive", seen, &clean)
	if esc {
		if uerr == nil {
			ev.Fail(t, prop, test, c, "an entry resolves outside the destination but Unzip reported success")
		}
		if clean && !commonerrors.Any(uerr, commonerrors.ErrMalicious) {
			ev.Fail(t, prop, test, c, "an entry resolves outside the destination (and nothing before it can fail) but the error is %q, not the 'suspected malicious intent' kind", uerr)
		}
		ev.Class("would-escape")
	} else {
		ev.Class("would-not-escape")
	}
	if uerr == nil {
		ev.Class("unzip-ok")
	} else if commonerrors.Any(uerr, commonerrors.ErrMalicious) {
		ev.Class("unzip-refused-malicious")
	} else {
		ev.Class("unzip-failed-other")
	}
}

func replayCase(t ev.T, raw json.RawMessage) {
	var c Case
	if err := json.Unmarshal(raw, &c); err != nil {
		t.Fatalf("HARNESS: %v", err)
	}
	checkCase(t, "TestUnzipContainment", c)
}

func init() {
	ev.RegisterReplay("TestUnzipContainment", replayCase)
	ev.RegisterReplay("FuzzUnzipName", replayCase)
}

func TestReplay(t *testing.T)      { ev.RunReplay(t) }
func TestRegressions(t *testing.T) { ev.Regressions(t, prop) }

func TestUnzipContainment(t *testing.T) {
	rapid.Check(t, func(rt *rapid.T) {
		c := Case{Backend: rapid.SampledFrom([]string{"mem", "mem", "os"}).Draw(rt, "backend")}
		var h bool
		c.Archive, h = genArchive(rt, "a", 0)
		c.Dest = rapid.SampledFrom([]string{"abs", "abs", "abs/", "abs//", "rel", "./rel", "rel/", "x/../rel", "abs-nonascii", "dotdot", "dotdot2", "dotdot", "dotdot2", "dot", "empty", "dotslash"}).Draw(rt, "dest")
		if c.Dest == "dotdot" || c.Dest == "dotdot2" || c.Dest == "dot" || c.Dest == "empty" || c.Dest == "dotslash" {
			c.Backend = "os" // only a backend with a working directory can be given such a destination
		}
		c.Limits = rapid.SampledFrom([]string{"none", "nonrecursive", "recursive", "recursive"}).Draw(rt, "limits")
		key, _ := json.Marshal(c)
		ev.Case(string(key), h, c.Backend+"/"+c.Limits, c)
		checkCase(rt, "TestUnzipContainment", c)
	})
}

// FuzzUnzipName: one-entry archive, coverage guided over the raw name bytes (thorough tier).
func FuzzUnzipName(f *testing.F) {
	for _, h := range hostile {
		f.Add(h, uint8(0))
		f.Add(append(append([]byte("a/"), h...), []byte("/b")...), uint8(1))
	}
	f.Add([]byte(".\x1b(B./.\x1b(B./evil\xff"), uint8(0))
	f.Add([]byte("deep/.\x1b(B./.\x1b(B./.\x1b(B./evil\xff"), uint8(2))
	f.Fuzz(func(t *testing.T, name []byte, sel uint8) {
		if len(name) > 300 || bytes.IndexByte(name, 0) >= 0 {
			return
		}
		c := Case{Backend: "mem", Dest: []string{"abs", "abs/", "abs-nonascii"}[int(sel)%3], Limits: []string{"none", "recursive"}[int(sel/3)%2]}
		c.Archive.Entries = []zipgen.Entry{{Name: []byte("deep/ok.txt"), Payload: treegen.Content{Len: 3, Kind: 1}}, {Name: name, NameQ: zipgen.Q(name), Payload: treegen.Content{Len: 5, Kind: 1}}}
		checkCase(t, "FuzzUnzipName", c)
	})
}
