// Package c05 decides C05: cancelling a subprocess terminates its whole process tree, promptly.
package c05

import (
	"context"
	"encoding/json"
	"fmt"
	"os"
	"sort"
	"strings"
	"sync"
	"sync/atomic"
	"testing"
	"time"

	"pgregory.net/rapid"

	"github.com/ARM-software/golang-utils/utils/subprocess"
	"github.com/ARM-software/golang-utils/utils/subprocess/command"
	"github.com/ARM-software/golang-utils/utils/subprocess/supervisor"

	"verif/internal/ev"
	"verif/internal/proctree"
)

const prop = "C05"

func TestMain(m *testing.M) {
	proctree.MaybeRunHelper()
	ev.Main(m)
}

type quiet struct{}

func (quiet) Close() error                 { return nil }
func (quiet) Check() error                 { return nil }
func (quiet) SetLogSource(string) error    { return nil }
func (quiet) SetLoggerSource(string) error { return nil }
func (quiet) Log(...interface{})           {}
func (quiet) LogError(...interface{})      {}

// Bounds. The library stops a tree with signals (microseconds) and a 10 ms timer: B is three orders of magnitude above.
const (
	boundReturn = 5 * time.Second // the stopping call must have returned / IsOn() must be false by then
	boundGone   = 2 * time.Second // after the call returned, members still in the group must have gone by then
	longLife    = 120000          // ms: far above every bound
)

type Case struct {
	Tree  proctree.Node `json:"tree"`
	Start string        `json:"start"` // execute | start | supervisor
	Stop  string        `json:"stop"`  // ctx | deadline | Cancel | Stop | Restart
	// StopAtMs: -1 = once every process of the tree has registered; otherwise that long after the start call began
	StopAtMs int `json:"stop_at_ms"`
	// AssertKnown disables the classification of the listed known findings (set by their replays only)
	AssertKnown bool `json:"assert_known,omitempty"`
	// Repeat: replays only - run the case that many times (schedule-dependent findings)
	Repeat int `json:"repeat,omitempty"`
	// Busy: that many goroutines of the harness spin from the start call until shortly after the stop request, so that
	// the goroutines the library starts do not get a processor at once (what a loaded machine does by itself)
	Busy int `json:"busy,omitempty"`
	// OneCPU: the test process (and the processes it starts) are confined to one processor until shortly after the stop
	// request: with Busy spinners this is an overloaded machine in small
	OneCPU bool `json:"one_cpu,omitempty"`
	// As: the command goes through a command translator (what sudo / su / gosu are): "" = none, "env" = `env <cmd>`,
	// "nice" = `nice -n 0 <cmd>` (both replace themselves by the command, as sudo-like wrappers of interest do)
	As string `json:"as,omitempty"`
	// PriorCancelled (execute only): the same object has just been executed once and interrupted by Cancel(): an object is
	// not a one-shot thing. HoldMs: the tree is left running that long before the stop is requested.
	PriorCancelled bool `json:"prior_run_cancelled,omitempty"`
	HoldMs         int  `json:"hold_ms,omitempty"`
}

func newProc(ctx context.Context, as string, args []string) (*subprocess.Subprocess, error) {
	var tr *command.CommandAsDifferentUser
	switch as {
	case "":
		return subprocess.New(ctx, quiet{}, "", "", "", proctree.Self(), args...)
	case "env":
		tr = command.NewCommandAsDifferentUser("env")
	case "nice":
		tr = command.NewCommandAsDifferentUser("nice", "-n", "0")
	case "me":
		tr = command.Me()
	}
	p := new(subprocess.Subprocess)
	err := p.SetupAs(ctx, quiet{}, "", "", "", tr, proctree.Self(), args...)
	return p, err
}

func genNode(t *rapid.T, depth int, budget *int, isRoot bool, rootMustLive bool) proctree.Node {
	n := proctree.Node{}
	n.IgnoreTerm = rapid.IntRange(0, 3).Draw(t, "ignore-term") == 0
	if !isRoot {
		n.ClosePipes = rapid.IntRange(0, 2).Draw(t, "close-pipes") == 0
		n.NewGroup = rapid.IntRange(0, 11).Draw(t, "new-group") == 0
		if n.NewGroup && rapid.Bool().Draw(t, "chatty") {
			n.ChattyMs = rapid.SampledFrom([]int{20, 100, 300}).Draw(t, "chatty-ms")
		}
	}
	kids := 0
	if depth < 4 && *budget > 0 {
		kids = rapid.SampledFrom([]int{0, 1, 1, 1, 2, 2, 3, 4}).Draw(t, "children")
		if isRoot && kids == 0 && rapid.IntRange(0, 3).Draw(t, "root-alone") > 0 {
			kids = 1
		}
		if kids > *budget {
			kids = *budget
		}
	}
	*budget -= kids
	for i := 0; i < kids; i++ {
		n.Children = append(n.Children, genNode(t, depth+1, budget, false, false))
	}
	n.LiveMs = longLife
	if kids > 0 {
		switch rapid.IntRange(0, 5).Draw(t, "parent-life") {
		case 0: // the parent exits before its children
			if !(isRoot && rootMustLive) {
				n.LiveMs = rapid.SampledFrom([]int{0, 5, 30}).Draw(t, "short-life")
			}
		case 1, 2: // like `sh -c "... & wait"`
			n.LiveMs = 0
			n.WaitChildren = true
		}
	}
	if isRoot {
		n.Writes = []proctree.Write{{Stream: 1, Data: []byte("started\n")}}
	}
	return n
}

func genCase(t *rapid.T) Case {
	c := Case{}
	c.Start = rapid.SampledFrom([]string{"execute", "execute", "start", "start", "supervisor"}).Draw(t, "start")
	switch c.Start {
	case "execute":
		c.Stop = rapid.SampledFrom([]string{"ctx", "deadline", "Cancel", "Stop", "Restart"}).Draw(t, "stop")
		c.PriorCancelled = rapid.IntRange(0, 5).Draw(t, "prior-cancelled") == 0
	case "start":
		c.Stop = rapid.SampledFrom([]string{"ctx", "deadline", "Cancel", "Stop", "Stop", "Restart"}).Draw(t, "stop")
	default:
		c.Stop = rapid.SampledFrom([]string{"ctx", "deadline"}).Draw(t, "stop")
	}
	budget := rapid.IntRange(0, 9).Draw(t, "descendants")
	c.Tree = genNode(t, 1, &budget, true, c.Start == "supervisor")
	if c.Start == "supervisor" && !longLived(&c.Tree) {
		// a command that ends by itself is restarted for ever by the supervisor (leaving whatever it orphaned behind each time)
		c.Tree.LiveMs, c.Tree.WaitChildren = longLife, false
	}
	c.StopAtMs = rapid.SampledFrom([]int{-1, -1, -1, 0, 1, 3, 5, 10, 25}).Draw(t, "stop-at-ms")
	c.As = rapid.SampledFrom([]string{"", "", "", "env", "nice", "me"}).Draw(t, "as")
	if c.StopAtMs >= 0 && rapid.IntRange(0, 2).Draw(t, "busy") == 0 {
		c.Busy = rapid.SampledFrom([]int{1, 4, 16, 64}).Draw(t, "spinners")
		c.OneCPU = rapid.Bool().Draw(t, "one-cpu")
	}
	return c
}

// escapeeHoldsPipes: some process left the process group (or descends from one that did) and keeps the inherited pipes.
func escapeeHoldsPipes(n *proctree.Node, escaped bool) bool { return escapeeHolds(n, escaped, true) }

// escapeeHolds: chattyCounts tells whether an escapee that keeps writing holds the call back too. It does not when the run
// goes through Execute (once the context is done the library refuses what it reads, stops reading, and the next write of
// the escapee fails); it does when the process was started with Start (nothing refuses its output before Stop has returned).
func escapeeHolds(n *proctree.Node, escaped bool, chattyCounts bool) bool {
	escaped = escaped || n.NewGroup
	chatty := n.ChattyMs > 0 && n.LiveMs >= longLife // (it keeps writing for as long as it lives, not just before a silent wait)
	if escaped && !n.ClosePipes && longLived(n) && (!chatty || chattyCounts) {
		return true
	}
	// a descendant of a process that closed its pipes has none to hold
	if n.ClosePipes {
		return false
	}
	for i := range n.Children {
		if escapeeHolds(&n.Children[i], escaped, chattyCounts) {
			return true
		}
	}
	return false
}

// longLived: the process outlives every bound (by itself, or because it waits for a child that does).
func longLived(n *proctree.Node) bool {
	if n.LiveMs >= longLife {
		return true
	}
	if n.WaitChildren {
		for i := range n.Children {
			if longLived(&n.Children[i]) {
				return true
			}
		}
	}
	return false
}

func describeProcs(ps []proctree.Proc) string {
	var parts []string
	for _, p := range ps {
		parts = append(parts, fmt.Sprintf("%s(pid %d, pgid %d, ppid %d, %s)", p.Node, p.Pid, p.Pgid, p.Ppid, p.State))
	}
	sort.Strings(parts)
	return strings.Join(parts, " ")
}

func check(t ev.T, test string, c Case) {
	dir, err := os.MkdirTemp("", "verif-c05-")
	if err != nil {
		t.Fatalf("HARNESS: %v", err)
	}
	defer os.RemoveAll(dir)
	sc := proctree.Script{Dir: dir, Root: c.Tree}
	args, err := sc.Save()
	if err != nil {
		t.Fatalf("HARNESS: %v", err)
	}
	defer func() {
		for i := 0; i < 3; i++ {
			ps := proctree.Scan(dir, proctree.Registered(dir))
			alive := 0
			for _, p := range ps {
				if p.State != "Z" {
					alive++
				}
			}
			if alive == 0 {
				return
			}
			proctree.KillAll(ps)
			time.Sleep(5 * time.Millisecond)
		}
	}()

	ctx, cancel := context.WithCancel(context.Background())
	defer cancel()
	runCtx := ctx
	stopAt := time.Duration(c.StopAtMs) * time.Millisecond
	if c.Stop == "deadline" {
		d := stopAt
		if c.StopAtMs < 0 {
			d = 400 * time.Millisecond
		}
		var cf context.CancelFunc
		runCtx, cf = context.WithTimeout(ctx, d)
		defer cf()
	}

	var p *subprocess.Subprocess
	done := make(chan error, 1) // the call that the stop request must release
	var idle atomic.Bool
	unconfine := func() {}
	if c.OneCPU {
		unconfine = sync.OnceFunc(proctree.Confine())
		defer unconfine()
	}
	if c.Busy > 0 {
		for i := 0; i < c.Busy; i++ {
			go func() {
				for !idle.Load() {
				}
			}()
		}
		defer idle.Store(true)
	}
	began := time.Now()
	priorRegistered := 0
	switch c.Start {
	case "execute":
		p, err = newProc(runCtx, c.As, args)
		if err != nil {
			ev.Fail(t, prop, test, c, "New failed: %v", err)
		}
		if c.PriorCancelled {
			prior := make(chan error, 1)
			go func() { prior <- p.Execute() }()
			for end := time.Now().Add(5 * time.Second); !p.IsOn() && time.Now().Before(end); {
				time.Sleep(200 * time.Microsecond)
			}
			time.Sleep(30 * time.Millisecond)
			p.Cancel()
			select {
			case <-prior:
			case <-time.After(10 * time.Second):
				ev.Inconclusive("the prior run did not return 10 s after Cancel()")
				return
			}
			// (the next run begins straight away: what the previous one leaves behind in the library is part of the case)
			priorRegistered = len(proctree.Registered(dir))
			ev.Class("the object had been executed and cancelled before")
			began = time.Now()
		}
		go func() { done <- p.Execute() }()
	case "start":
		p, err = newProc(runCtx, c.As, args)
		if err != nil {
			ev.Fail(t, prop, test, c, "New failed: %v", err)
		}
		if serr := p.Start(); serr != nil {
			if runCtx.Err() != nil {
				ev.Class("start refused: context already over")
				return
			}
			ev.Fail(t, prop, test, c, "Start failed: %v", serr)
		}
	case "supervisor":
		var created []*subprocess.Subprocess
		sup := supervisor.NewSupervisor(func(sctx context.Context) (*subprocess.Subprocess, error) {
			sp, serr := newProc(sctx, c.As, args)
			if serr == nil {
				created = append(created, sp)
				p = sp
			}
			return sp, serr
		})
		go func() { done <- sup.Run(runCtx) }()
	}

	// ---- the stop instant
	want := c.Tree.Count()
	if c.StopAtMs < 0 {
		ms := proctree.WaitRegistered(dir, want+priorRegistered, 20*time.Second)
		if len(ms) < want+priorRegistered {
			ev.Inconclusive("the tree had not finished spawning after 20 s")
			cancel()
			return
		}
	} else {
		time.Sleep(time.Until(began.Add(stopAt)))
	}
	if c.HoldMs > 0 {
		time.Sleep(time.Duration(c.HoldMs) * time.Millisecond)
	}
	before := proctree.Registered(dir)
	if c.Start == "execute" {
		select {
		case e := <-done:
			// the process ended (and Execute returned) before anything was stopped: not a cancellation of a running subprocess
			_ = e
			ev.Class("execute had returned by itself before the stop")
			return
		default:
		}
	}
	// ---- the stop request
	var t0 time.Time
	stopDone := make(chan error, 1)
	switch c.Stop {
	case "ctx":
		t0 = time.Now()
		cancel()
	case "deadline":
		<-runCtx.Done()
		t0 = time.Now()
	case "Cancel":
		// Cancel() interrupts an ongoing process: one requested before Execute has begun is (legitimately) lost
		for end := time.Now().Add(5 * time.Second); !p.IsOn() && time.Now().Before(end); {
			time.Sleep(200 * time.Microsecond)
		}
		t0 = time.Now()
		p.Cancel()
	case "Stop":
		if c.Start == "execute" {
			// (a Stop() before Execute has begun finds nothing to stop)
			for end := time.Now().Add(5 * time.Second); !p.IsOn() && time.Now().Before(end); {
				time.Sleep(200 * time.Microsecond)
			}
		}
		t0 = time.Now()
		go func() { stopDone <- p.Stop() }()
	case "Restart":
		if c.Start == "execute" {
			for end := time.Now().Add(5 * time.Second); !p.IsOn() && time.Now().Before(end); {
				time.Sleep(200 * time.Microsecond)
			}
		}
		t0 = time.Now()
		go func() { stopDone <- p.Restart() }()
	}

	if c.Busy > 0 {
		time.AfterFunc(20*time.Millisecond, func() { idle.Store(true); unconfine() })
	}

	// ---- (1) the call returns within the bound
	var execErr error
	_ = execErr
	execReturned, stopReturned := false, false
	released := func() bool {
		switch {
		case c.Start == "execute" && (c.Stop == "Stop" || c.Stop == "Restart"):
			// both calls must come back: Execute and the Stop that interrupted it
			if !execReturned {
				select {
				case execErr = <-done:
					execReturned = true
				default:
				}
			}
			if !stopReturned {
				select {
				case <-stopDone:
					stopReturned = true
				default:
				}
			}
			return execReturned && stopReturned
		case c.Start == "execute" || c.Start == "supervisor":
			select {
			case execErr = <-done:
				return true
			default:
				return false
			}
		case c.Stop == "Stop" || c.Stop == "Restart":
			select {
			case e := <-stopDone:
				if e != nil {
					ev.Fail(t, prop, test, c, "%s returned %v", c.Stop, e)
				}
				return true
			default:
				return false
			}
		default: // Start, then the context ends or Cancel(): nothing to return from; the object must notice
			return !p.IsOn()
		}
	}
	what := fmt.Sprintf("%s then %s at %s", c.Start, c.Stop, map[bool]string{true: "tree complete", false: fmt.Sprintf("%d ms", c.StopAtMs)}[c.StopAtMs < 0])
	ok := false
	for time.Since(t0) < boundReturn {
		if released() {
			ok = true
			break
		}
		time.Sleep(2 * time.Millisecond)
	}
	took := time.Since(t0)
	rootPids := map[int]bool{}
	collect := func() []proctree.Member {
		ms := proctree.Registered(dir)
		for _, m := range ms {
			if m.Node == "r" {
				rootPids[m.Pid] = true
			}
		}
		return ms
	}
	// did the process itself (the root of the tree) reach the end of its script, as opposed to having been stopped? (Execute's
	// own result cannot tell: exec reports the context error whenever the context ended before Wait returned, even if
	// the process had exited by itself a moment earlier)
	rootEnded := func() bool {
		for _, m := range proctree.Registered(dir) {
			if m.Node == "r" && proctree.EndedByItself(dir, "r", m.Pid) {
				return true
			}
		}
		return false
	}
	if !ok {
		ms := collect()
		ps := proctree.Scan(dir, ms)
		var alive, inGroup []proctree.Proc
		for _, q := range ps {
			if q.State != "Z" {
				alive = append(alive, q)
				if rootPids[q.Pgid] {
					inGroup = append(inGroup, q)
				}
			}
		}
		if len(alive) == 0 {
			ev.Inconclusive("the stopping call did not return within the bound although no process of the tree is left")
			return
		}
		proctree.KillAll(alive)
		freed := false
		for end := time.Now().Add(3 * time.Second); time.Now().Before(end); time.Sleep(2 * time.Millisecond) {
			if released() {
				freed = true
				break
			}
		}
		if !freed {
			ev.Inconclusive("the stopping call did not return within the bound, nor once the harness had killed the tree")
			return
		}
		if len(inGroup) > 0 && c.Start == "execute" && rootEnded() && !c.AssertKnown {
			ev.Exclude("C05-R12c the process itself had already exited when the stop was requested: Execute keeps waiting for the descendants that hold its pipes")
			ev.Class("known C05-R12c")
			return
		}
		if len(inGroup) == 0 && escapeeHolds(&c.Tree, false, c.Start == "start") && !c.AssertKnown {
			ev.Exclude("C05-R12b a descendant that left the process group keeps the inherited pipes: the call waits for it")
			ev.Class("known C05-R12b")
			return
		}
		ev.Fail(t, prop, test, c, "%s: the call had not returned %v after the stop request while descendants were alive [%s]; it returned as soon as the harness killed them (it was waiting for surviving descendants)", what, boundReturn, describeProcs(alive))
	}
	ev.MetricMax("ms-until-released/"+c.Start+"/"+c.Stop, float64(took.Milliseconds()))

	// ---- (2) nothing of the tree that is still in the process group is left
	if c.Stop == "Restart" {
		// the generation started before the Restart must be gone; the new one must be running
		old := map[int]bool{}
		for _, m := range before {
			old[m.Pid] = true
		}
		var left []proctree.Proc
		for end := time.Now().Add(boundGone); ; time.Sleep(3 * time.Millisecond) {
			left = left[:0]
			ms := collect()
			oldRoots := map[int]bool{}
			for _, m := range before {
				if m.Node == "r" {
					oldRoots[m.Pid] = true
				}
			}
			for _, q := range proctree.Scan(dir, ms) {
				if q.State != "Z" && oldRoots[q.Pgid] {
					left = append(left, q)
				}
			}
			if len(left) == 0 || time.Now().After(end) {
				break
			}
		}
		if len(left) > 0 && c.Start == "execute" && rootEnded() && !c.AssertKnown {
			ev.Exclude("C05-R12c the process itself had already exited when the stop was requested: Execute keeps waiting for the descendants that hold its pipes")
			ev.Class("known C05-R12c")
			proctree.KillAll(left)
			return
		}
		if len(left) > 0 {
			ev.Fail(t, prop, test, c, "%s: %v after Restart returned, processes of the previous run are still alive in its process group: %s", what, boundGone, describeProcs(left))
		}
		if !p.IsOn() {
			ev.Fail(t, prop, test, c, "%s: IsOn() is false after a successful Restart", what)
		}
		// now stop the new generation for good
		t1 := time.Now()
		sd := make(chan error, 1)
		go func() { sd <- p.Stop() }()
		select {
		case <-sd:
		case <-time.After(boundReturn):
			ps := proctree.Scan(dir, collect())
			proctree.KillAll(ps)
			select {
			case <-sd:
				if escapeeHoldsPipes(&c.Tree, false) && !c.AssertKnown {
					ev.Exclude("C05-R12b a descendant that left the process group keeps the inherited pipes: the call waits for it")
					ev.Class("known C05-R12b")
					return
				}
				ev.Fail(t, prop, test, c, "%s: the Stop after the Restart had not returned after %v while descendants were alive [%s]", what, time.Since(t1), describeProcs(ps))
			case <-time.After(3 * time.Second):
				ev.Inconclusive("Stop after Restart did not return")
				return
			}
		}
	}
	var left []proctree.Proc
	var exempt int
	for end := time.Now().Add(boundGone); ; time.Sleep(3 * time.Millisecond) {
		left = left[:0]
		exempt = 0
		ms := collect()
		for _, q := range proctree.Scan(dir, ms) {
			if q.State == "Z" {
				continue
			}
			if rootPids[q.Pgid] || len(rootPids) == 0 {
				left = append(left, q)
			} else {
				exempt++
			}
		}
		if len(left) == 0 || time.Now().After(end) {
			break
		}
	}
	if len(left) > 0 && c.Start == "execute" && rootEnded() && !c.AssertKnown {
		ev.Exclude("C05-R12c the process itself had already exited when the stop was requested: Execute keeps waiting for the descendants that hold its pipes")
		ev.Class("known C05-R12c")
		return
	}
	if len(left) > 0 {
		ev.Fail(t, prop, test, c, "%s: %v after the call returned (%v after the stop request), processes of the tree are still alive in its process group: %s", what, boundGone, took.Round(time.Millisecond), describeProcs(left))
	}
	// ---- (3) IsOn() is false
	if p != nil {
		on := true
		for end := time.Now().Add(boundGone); time.Now().Before(end); time.Sleep(2 * time.Millisecond) {
			if on = p.IsOn(); !on {
				break
			}
		}
		if on {
			ev.Fail(t, prop, test, c, "%s: IsOn() is still true %v after the stop", what, boundGone)
		}
	}
	cls := fmt.Sprintf("%s/%s", c.Start, c.Stop)
	if c.As != "" {
		ev.Class("through a command translator: " + c.As)
	}
	if exempt > 0 {
		ev.Class("escaped members left alone")
	}
	ev.Class(cls)
}

// checkConfirmed runs a case; what looks like a violation must show again in at least one of six further runs of the very
// same case before it is reported. Real processes on a shared machine are exposed to events no oracle can see (a signal
// from elsewhere, a /proc read failing under pressure ...): a one-off is counted as inconclusive. A defect of the library
// that needs a particular instant still shows, since the same instants are generated again and again.
func checkConfirmed(t ev.T, test string, c Case) {
	ok, msg := ev.RunIsolated(func(it ev.T) { check(it, test, c) })
	if ok {
		return
	}
	if strings.Contains(msg, "HARNESS") {
		t.Fatalf("%s", msg)
	}
	for i := 0; i < 6; i++ {
		if ok2, msg2 := ev.RunIsolated(func(it ev.T) { check(it, test, c) }); !ok2 && !strings.Contains(msg2, "HARNESS") {
			ev.Fail(t, prop, test, c, "%s [seen again in run %d of the same case]", strings.TrimPrefix(msg2, "ORACLE property=C05 test="+test+": "), i+2)
		}
	}
	ev.Inconclusive("a violation seen once did not show again in six more runs of the same case")
}

func shape(n *proctree.Node) (depth, count int, ignoring, closing, shortParent bool) {
	count = 1
	ignoring, closing = n.IgnoreTerm, n.ClosePipes
	shortParent = len(n.Children) > 0 && n.LiveMs < longLife && !n.WaitChildren
	for i := range n.Children {
		d, k, ig, cl, sp := shape(&n.Children[i])
		if d > depth {
			depth = d
		}
		count += k
		ignoring = ignoring || ig
		closing = closing || cl
		shortParent = shortParent || sp
	}
	return depth + 1, count, ignoring, closing, shortParent
}

func TestTrees(t *testing.T) {
	rapid.Check(t, func(rt *rapid.T) {
		c := genCase(rt)
		k, _ := json.Marshal(c)
		d, n, ig, cl, sp := shape(&c.Tree)
		ev.Case(string(k), n > 1, fmt.Sprintf("shape depth=%d", d), c)
		if ig {
			ev.Class("tree has a TERM-ignoring member")
		}
		if cl {
			ev.Class("tree has a member that closed the pipes")
		}
		if sp {
			ev.Class("tree has a parent that exits before its children")
		}
		checkConfirmed(rt, "TestTrees", c)
	})
}

func init() {
	ev.RegisterReplay("TestTrees", func(t ev.T, raw json.RawMessage) {
		var c Case
		if err := json.Unmarshal(raw, &c); err != nil {
			t.Fatalf("HARNESS: %v", err)
		}
		for i := 0; i < maxInt(1, c.Repeat); i++ {
			checkConfirmed(t, "TestTrees", c)
		}
	})
}

func maxInt(a, b int) int {
	if a > b {
		return a
	}
	return b
}

func TestReplay(t *testing.T)      { ev.RunReplay(t) }
func TestRegressions(t *testing.T) { ev.Regressions(t, prop) }
