// Package c18 decides C18: subprocess results are faithful — exit status and every output line.
package c18

import (
	"bytes"
	"context"
	"encoding/json"
	"fmt"
	"os"
	"strings"
	"sync"
	"syscall"
	"testing"
	"time"

	"pgregory.net/rapid"

	"github.com/ARM-software/golang-utils/utils/commonerrors"
	"github.com/ARM-software/golang-utils/utils/subprocess"

	"verif/internal/ev"
	"verif/internal/proctree"
)

const prop = "C18"

func TestMain(m *testing.M) {
	proctree.MaybeRunHelper()
	ev.Main(m)
}

// ---- recording loggers ---------------------------------------------------------------------------------------------------

type entry struct {
	Err  bool
	Args []any
}

func (e entry) text() string { return fmt.Sprint(e.Args...) }

type recorder struct {
	mu      sync.Mutex
	entries []entry
}

func (r *recorder) Close() error                 { return nil }
func (r *recorder) Check() error                 { return nil }
func (r *recorder) SetLogSource(string) error    { return nil }
func (r *recorder) SetLoggerSource(string) error { return nil }
func (r *recorder) Log(output ...interface{})    { r.add(false, output) }
func (r *recorder) LogError(err ...interface{})  { r.add(true, err) }
func (r *recorder) add(isErr bool, a []interface{}) {
	r.mu.Lock()
	r.entries = append(r.entries, entry{Err: isErr, Args: append([]any(nil), a...)})
	r.mu.Unlock()
}
func (r *recorder) reset() {
	r.mu.Lock()
	r.entries = nil
	r.mu.Unlock()
}

func (r *recorder) snapshot() []entry {
	r.mu.Lock()
	defer r.mu.Unlock()
	return append([]entry(nil), r.entries...)
}

// ---- cases ---------------------------------------------------------------------------------------------------------------

// Line is one line of a stream: Len bytes produced from Seed in the alphabet Kind; the first byte tells the stream.
type Line struct {
	Len  int    `json:"len"`
	Seed uint32 `json:"seed"`
	Kind string `json:"kind"` // ascii | utf8 | spaces | cr
}

type Stream struct {
	Lines        []Line `json:"lines"` // Len 0 = an empty line
	FinalNewline bool   `json:"final_newline"`
	Cuts         []int  `json:"cuts"`      // byte offsets (per mille of the stream) at which the child splits its writes
	PausesUs     []int  `json:"pauses_us"` // pause after each write (cycled)
}

type Case struct {
	Entry  string   `json:"entry"` // execute | output | start-stop
	Out    Stream   `json:"stdout"`
	Err    Stream   `json:"stderr"`
	Order  []int    `json:"order"` // interleaving of the two streams' writes: 1 / 2 (cycled; exhausted streams are skipped)
	Exit   int      `json:"exit"`
	Signal int      `json:"signal,omitempty"`
	Env    []string `json:"env,omitempty"` // extra environment variables NAME=value, echoed back by the child
	// Cancel: the child stays alive for a minute after its writes and the run is cancelled this way
	Cancel string `json:"cancel,omitempty"` // "" | ctx | deadline | Cancel
	// PriorRuns (execute only): the same Subprocess object has already been executed that many times (same command) right
	// before the run that is judged: an object is not a one-shot thing (Restart, supervisors re-using a command)
	PriorRuns int `json:"prior_runs_of_the_same_object,omitempty"`
	// Repeat: replays only - run the case that many times (schedule-dependent findings)
	Repeat int `json:"repeat,omitempty"`
}

const alphaASCII = "abcdefghijklmnopqrstuvwxyzABCDEFGHIJKLMNOPQRSTUVWXYZ0123456789 _-+=/.,:;!?()[]{}<>@#$%^&*'\"\\|~`"

var alphaUTF8 = []string{"é", "ü", "ß", "€", "→", "日", "本", "😀", "a", "b", " ", "z"}

func (l Line) render(stream int) []byte {
	if l.Len == 0 {
		return nil
	}
	var b bytes.Buffer
	x := l.Seed*2654435761 + 12345 + uint32(stream)*977
	next := func() uint32 { x ^= x << 13; x ^= x >> 17; x ^= x << 5; return x }
	for b.Len() < l.Len {
		switch l.Kind {
		case "utf8":
			s := alphaUTF8[int(next())%len(alphaUTF8)]
			if b.Len()+len(s) > l.Len {
				s = "x"
			}
			b.WriteString(s)
		case "spaces":
			b.WriteByte(" \t x"[int(next())%4])
		case "cr":
			if next()%7 == 0 {
				b.WriteByte('\r')
			} else {
				b.WriteByte(alphaASCII[int(next())%len(alphaASCII)])
			}
		default:
			b.WriteByte(alphaASCII[int(next())%len(alphaASCII)])
		}
	}
	return b.Bytes()
}

func (s Stream) bytesOf(stream int) ([]byte, []string) {
	var b bytes.Buffer
	var want []string
	for i, l := range s.Lines {
		d := l.render(stream)
		b.Write(d)
		if len(d) > 0 {
			want = append(want, string(d))
		}
		if i < len(s.Lines)-1 || s.FinalNewline {
			b.WriteByte('\n')
		}
	}
	return b.Bytes(), want
}

func (s Stream) writes(stream int) ([]proctree.Write, []string, bool) {
	data, want := s.bytesOf(stream)
	var offs []int
	for _, c := range s.Cuts {
		o := int(int64(len(data)) * int64(c) / 1000)
		if o > 0 && o < len(data) {
			offs = append(offs, o)
		}
	}
	offs = append(offs, len(data))
	// sort + unique
	for i := range offs {
		for j := i + 1; j < len(offs); j++ {
			if offs[j] < offs[i] {
				offs[i], offs[j] = offs[j], offs[i]
			}
		}
	}
	var ws []proctree.Write
	prev := 0
	midLine := false
	for i, o := range offs {
		if o <= prev {
			continue
		}
		p := 0
		if len(s.PausesUs) > 0 {
			p = s.PausesUs[i%len(s.PausesUs)]
		}
		ws = append(ws, proctree.Write{Stream: stream, Data: data[prev:o], PauseUs: p})
		if o < len(data) && data[o-1] != '\n' {
			midLine = true
		}
		prev = o
	}
	return ws, want, midLine
}

func genLine(t *rapid.T, maxLen int) Line {
	k := rapid.SampledFrom([]string{"ascii", "ascii", "ascii", "utf8", "spaces", "cr"}).Draw(t, "kind")
	var n int
	switch rapid.IntRange(0, 19).Draw(t, "len-class") {
	case 0:
		n = 0
	case 1, 2:
		n = rapid.IntRange(1, 3).Draw(t, "len")
	case 3:
		n = rapid.IntRange(1000, maxLen).Draw(t, "len")
	case 4:
		n = rapid.SampledFrom([]int{4095, 4096, 4097, 32767, 32768, 32769, 65535, 65536, 65537}).Draw(t, "len")
		if n > maxLen {
			n = maxLen
		}
	default:
		n = rapid.IntRange(1, 200).Draw(t, "len")
	}
	return Line{Len: n, Seed: rapid.Uint32().Draw(t, "seed"), Kind: k}
}

func genStream(t *rapid.T, label string, maxLines, maxLen int) Stream {
	n := rapid.IntRange(0, maxLines).Draw(t, label+"-lines")
	if rapid.IntRange(0, 5).Draw(t, label+"-few") > 0 && n > 12 {
		n = n % 12
	}
	s := Stream{FinalNewline: rapid.IntRange(0, 3).Draw(t, label+"-final-nl") > 0}
	// the statement quantifies over 0..10^6 bytes per stream (quick: a quarter of that)
	budget := 250000
	if ev.Thorough() {
		budget = 1000000
	}
	for i := 0; i < n && budget > 0; i++ {
		l := genLine(t, maxLen)
		if l.Len+1 > budget {
			l.Len = budget - 1
		}
		budget -= l.Len + 1
		s.Lines = append(s.Lines, l)
	}
	s.Cuts = rapid.SliceOfN(rapid.IntRange(1, 999), 0, 8).Draw(t, label+"-cuts")
	s.PausesUs = rapid.SliceOfN(rapid.SampledFrom([]int{0, 0, 200, 1000, 3000}), 0, 4).Draw(t, label+"-pauses")
	return s
}

func genCase(t *rapid.T) Case {
	maxLines, maxLen := 400, 70000
	if ev.Thorough() {
		maxLines, maxLen = 3000, 100000
	}
	c := Case{Entry: rapid.SampledFrom([]string{"execute", "execute", "output", "start-stop"}).Draw(t, "entry")}
	c.Out = genStream(t, "out", maxLines, maxLen)
	c.Err = genStream(t, "err", maxLines/2, maxLen)
	c.Order = rapid.SliceOfN(rapid.IntRange(1, 2), 1, 8).Draw(t, "order")
	switch rapid.IntRange(0, 9).Draw(t, "end") {
	case 0, 1, 2, 3:
		c.Exit = 0
	case 4:
		c.Signal = rapid.SampledFrom([]int{int(syscall.SIGKILL), int(syscall.SIGTERM), int(syscall.SIGHUP), int(syscall.SIGINT)}).Draw(t, "signal")
	case 5:
		c.Exit = rapid.SampledFrom([]int{1, 2, 126, 127, 128, 137, 255}).Draw(t, "exit")
	default:
		c.Exit = rapid.IntRange(1, 249).Draw(t, "exit")
	}
	for i, n := 0, rapid.IntRange(0, 3).Draw(t, "envs"); i < n; i++ {
		c.Env = append(c.Env, fmt.Sprintf("VERIF_C18_%d=%s", i, rapid.StringMatching(`[a-zA-Z0-9 =:/,.-]{0,20}`).Draw(t, "env-value")))
	}
	if c.Entry != "start-stop" && rapid.IntRange(0, 7).Draw(t, "cancelled") == 0 {
		c.Cancel = rapid.SampledFrom([]string{"ctx", "deadline", "Cancel"}).Draw(t, "cancel")
		if c.Entry == "output" && c.Cancel == "Cancel" {
			c.Cancel = "ctx" // Output() gives no handle to call Cancel on
		}
	}
	if c.Entry == "execute" && c.Cancel == "" && rapid.IntRange(0, 4).Draw(t, "used-before") == 0 {
		c.PriorRuns = rapid.IntRange(1, 3).Draw(t, "prior-runs")
	}
	return c
}

// isSubsequenceInOrder checks that got is exactly want (same elements, same order).
func firstDiff(got, want []string) string {
	for i := 0; i < len(got) && i < len(want); i++ {
		if got[i] != want[i] {
			return fmt.Sprintf("message %d differs: got %s, want %s", i, clip(got[i]), clip(want[i]))
		}
	}
	if len(got) < len(want) {
		return fmt.Sprintf("%d messages received, %d lines written; first missing: %s", len(got), len(want), clip(want[len(got)]))
	}
	if len(got) > len(want) {
		return fmt.Sprintf("%d messages received, %d lines written; first extra: %s", len(got), len(want), clip(got[len(want)]))
	}
	return ""
}

func clip(s string) string {
	if len(s) > 60 {
		return fmt.Sprintf("%q…(%d bytes)…%q", s[:24], len(s), s[len(s)-24:])
	}
	return fmt.Sprintf("%q", s)
}

// splitLooksLikeChunking tells whether got is want with some lines cut into consecutive pieces (finding R11's shape).
func splitLooksLikeChunking(got, want []string) bool {
	i := 0
	for _, w := range want {
		acc := ""
		for acc != w {
			if i >= len(got) || len(acc) >= len(w) {
				return false
			}
			acc += got[i]
			i++
		}
	}
	return i == len(got)
}

const startMsg, okMsg, failMsg = "<<START>>", "<<SUCCESS>>", "<<FAILURE>>"

func check(t ev.T, test string, c Case) {
	dir, err := os.MkdirTemp("", "verif-c18-")
	if err != nil {
		t.Fatalf("HARNESS: %v", err)
	}
	defer os.RemoveAll(dir)
	outW, wantOut, midOut := c.Out.writes(1)
	errW, wantErr, midErr := c.Err.writes(2)
	node := proctree.Node{Exit: c.Exit, Signal: c.Signal}
	var envLines []string
	for _, kv := range c.Env {
		node.EchoEnv = append(node.EchoEnv, kv[:strings.Index(kv, "=")])
		envLines = append(envLines, kv)
	}
	wantOut = append(envLines, wantOut...)
	// interleave the writes of both streams
	i, j := 0, 0
	for k := 0; i < len(outW) || j < len(errW); k++ {
		pick := 1
		if len(c.Order) > 0 {
			pick = c.Order[k%len(c.Order)]
		}
		if (pick == 1 && i < len(outW)) || j >= len(errW) {
			node.Writes = append(node.Writes, outW[i])
			i++
		} else {
			node.Writes = append(node.Writes, errW[j])
			j++
		}
	}
	if c.Cancel != "" {
		node.LiveMs = 60000
	}
	sc := proctree.Script{Dir: dir, Root: node}
	args, err := sc.Save()
	if err != nil {
		t.Fatalf("HARNESS: %v", err)
	}
	env := c.Env
	defer func() { proctree.KillAll(proctree.Scan(dir, proctree.Registered(dir))) }()

	rec := &recorder{}
	ctx, cancel := context.WithCancel(context.Background())
	defer cancel()
	var runErr error
	var output string
	total := 0
	for _, w := range node.Writes {
		total += len(w.Data)
	}
	// the cancellation is requested once the child has written everything (the pause is generous: the oracle for the
	// cancelled run does not depend on it)
	cancelAfter := 150*time.Millisecond + time.Duration(total/200)*time.Microsecond
	for _, w := range node.Writes {
		cancelAfter += time.Duration(w.PauseUs) * time.Microsecond
	}
	began := time.Now()
	switch c.Entry {
	case "execute":
		runCtx := ctx
		if c.Cancel == "deadline" {
			var cf context.CancelFunc
			runCtx, cf = context.WithTimeout(ctx, cancelAfter)
			defer cf()
		}
		p, nerr := subprocess.NewWithEnvironment(runCtx, rec, env, startMsg, okMsg, failMsg, proctree.Self(), args...)
		if nerr != nil {
			ev.Fail(t, prop, test, c, "NewWithEnvironment failed: %v", nerr)
		}
		if c.PriorRuns > 0 && c.Cancel == "" {
			for k := 0; k < c.PriorRuns; k++ {
				ev.Guard(t, prop, test, c, func() { _ = p.Execute() })
			}
			rec.reset()
			began = time.Now()
			ev.Class("the object had been executed before")
		}
		switch c.Cancel {
		case "ctx":
			tm := time.AfterFunc(cancelAfter, cancel)
			defer tm.Stop()
		case "Cancel":
			tm := time.AfterFunc(cancelAfter, p.Cancel)
			defer tm.Stop()
		}
		ev.Guard(t, prop, test, c, func() { runErr = p.Execute() })
	case "output":
		runCtx := ctx
		if c.Cancel == "deadline" {
			var cf context.CancelFunc
			runCtx, cf = context.WithTimeout(ctx, cancelAfter)
			defer cf()
		} else if c.Cancel == "ctx" {
			tm := time.AfterFunc(cancelAfter, cancel)
			defer tm.Stop()
		}
		ev.Guard(t, prop, test, c, func() { output, runErr = subprocess.OutputWithEnvironment(runCtx, rec, env, proctree.Self(), args...) })
	case "start-stop":
		p, nerr := subprocess.NewWithEnvironment(ctx, rec, env, startMsg, okMsg, failMsg, proctree.Self(), args...)
		if nerr != nil {
			ev.Fail(t, prop, test, c, "NewWithEnvironment failed: %v", nerr)
		}
		if serr := p.Start(); serr != nil {
			ev.Fail(t, prop, test, c, "Start failed: %v", serr)
		}
		// wait until the child has ended (it stays a zombie until the library waits for it)
		end := time.Now().Add(60 * time.Second)
		for {
			ms := proctree.Registered(dir)
			if len(ms) == 1 {
				ps := proctree.Scan(dir, ms)
				if len(ps) == 0 || ps[0].State == "Z" {
					break
				}
			}
			if time.Now().After(end) {
				ev.Inconclusive("the child did not end within 60 s")
				_ = p.Stop()
				return
			}
			time.Sleep(2 * time.Millisecond)
		}
		ev.Guard(t, prop, test, c, func() { runErr = p.Stop() })
		if runErr != nil {
			ev.Fail(t, prop, test, c, "Stop of a process that had ended returned %v", runErr)
		}
	}
	elapsed := time.Since(began)

	// ---- oracle ----
	// "exactly one end message": whatever the library's own goroutines still have to say is given a moment to arrive
	if c.Cancel != "" {
		time.Sleep(60 * time.Millisecond)
	} else if c.Entry != "output" {
		time.Sleep(15 * time.Millisecond)
	}
	entries := rec.snapshot()
	var gotOut, gotErr []string
	framing := c.Entry != "output"
	body := entries
	if c.Entry == "start-stop" {
		// Start() does not log the start message: it announces the process ("Started process [pid]") once it has been
		// started, so the first output of the child may come before that announcement. Nothing is asserted about it.
	} else if framing {
		if len(entries) == 0 || entries[0].Err || entries[0].text() != startMsg {
			ev.Fail(t, prop, test, c, "the first message is not the start message: %v", describe(entries, 3))
		}
		body = entries[1:]
	}
	// the end message(s)
	var endMsgs []entry
	if framing {
		for len(body) > 0 {
			last := body[len(body)-1]
			isEnd := (!last.Err && last.text() == okMsg) || (last.Err && len(last.Args) > 0 && fmt.Sprint(last.Args[0]) == failMsg)
			if !isEnd {
				break
			}
			endMsgs = append([]entry{last}, endMsgs...)
			body = body[:len(body)-1]
		}
	}
	for _, e := range body {
		if c.Entry == "start-stop" && !e.Err && (strings.HasPrefix(e.text(), "Started process [") || strings.HasPrefix(e.text(), "Stopping process [")) {
			continue
		}
		if framing && ((!e.Err && e.text() == okMsg) || (e.Err && len(e.Args) > 0 && fmt.Sprint(e.Args[0]) == failMsg)) {
			ev.Fail(t, prop, test, c, "an end message was logged before the end of the child's own output: %v", describe(entries, 6))
		}
		if e.Err {
			gotErr = append(gotErr, e.text())
		} else {
			gotOut = append(gotOut, e.text())
		}
	}

	if c.Cancel != "" {
		// (1') cancelled run: an error of context kind; what was delivered is a prefix of what was written
		if runErr == nil {
			ev.Fail(t, prop, test, c, "the run was cancelled (%s) while the child was alive but %s returned nil", c.Cancel, c.Entry)
		}
		if elapsed > 30*time.Second {
			ev.Fail(t, prop, test, c, "the cancelled run (%s) only returned after %v", c.Cancel, elapsed)
		}
		if !commonerrors.Any(runErr, commonerrors.ErrCancelled, commonerrors.ErrTimeout) {
			ev.Fail(t, prop, test, c, "the run was cancelled (%s) but the error returned is not of context kind: %v", c.Cancel, runErr)
		}
		for k, g := range gotOut {
			if k >= len(wantOut) || (g != wantOut[k] && !(k == len(gotOut)-1 && strings.HasPrefix(wantOut[k], g))) {
				ev.Fail(t, prop, test, c, "cancelled run: standard output message %d is not what the child wrote: %s", k, clip(g))
			}
		}
		if framing && len(endMsgs) != 1 {
			ev.Fail(t, prop, test, c, "cancelled run: %d end messages logged (want exactly one): %v", len(endMsgs), describe(entries, 6))
		}
		ev.Class("cancelled/" + c.Cancel)
		return
	}

	// (1) exit status
	okExit := c.Exit == 0 && c.Signal == 0
	if c.Entry != "start-stop" {
		if okExit && runErr != nil {
			ev.Fail(t, prop, test, c, "the child exited with status 0 but %s returned %v", c.Entry, runErr)
		}
		if !okExit && runErr == nil {
			ev.Fail(t, prop, test, c, "the child ended with exit=%d signal=%d but %s returned nil", c.Exit, c.Signal, c.Entry)
		}
	}
	// (2) lines
	if d := firstDiff(gotOut, wantOut); d != "" {
		kind := ""
		if splitLooksLikeChunking(gotOut, wantOut) {
			kind = " (lines were cut into several messages)"
		}
		ev.Fail(t, prop, test, c, "standard output%s: %s", kind, d)
	}
	if d := firstDiff(gotErr, wantErr); d != "" {
		kind := ""
		if splitLooksLikeChunking(gotErr, wantErr) {
			kind = " (lines were cut into several messages)"
		}
		ev.Fail(t, prop, test, c, "standard error%s: %s", kind, d)
	}
	// (3) framing
	if c.Entry == "execute" {
		if len(endMsgs) != 1 {
			ev.Fail(t, prop, test, c, "%d end messages logged (want exactly one): %v", len(endMsgs), describe(entries, 6))
		}
		if okExit == endMsgs[0].Err {
			ev.Fail(t, prop, test, c, "the end message does not match the outcome (exit=%d signal=%d): %v", c.Exit, c.Signal, endMsgs[0])
		}
	}
	// (4) Output() returns all of it: the merged text is an interleaving of both streams' lines
	if c.Entry == "output" {
		lines := strings.Split(output, "\n")
		if len(lines) > 0 && lines[len(lines)-1] == "" {
			lines = lines[:len(lines)-1]
		}
		// reachable[a] after k lines: a lines of standard output and k-a lines of standard error have been matched
		reach := map[int]bool{0: true}
		for k, l := range lines {
			next := map[int]bool{}
			for a := range reach {
				b := k - a
				if a < len(wantOut) && l == wantOut[a] {
					next[a+1] = true
				}
				if b < len(wantErr) && l == wantErr[b] {
					next[a] = true
				}
			}
			if len(next) == 0 {
				ev.Fail(t, prop, test, c, "Output(): line %d of the returned text is neither the next line of standard output nor of standard error: %s", k, clip(l))
			}
			reach = next
		}
		if len(lines) != len(wantOut)+len(wantErr) || !reach[len(wantOut)] {
			ev.Fail(t, prop, test, c, "Output() returned %d lines; the child wrote %d lines of standard output and %d of standard error", len(lines), len(wantOut), len(wantErr))
		}
	}
	cls := "clean-writes"
	if midOut || midErr {
		cls = "line-straddles-writes"
	}
	if total > 65536 {
		cls += "+over-pipe-capacity"
	}
	ev.Class(c.Entry + "/" + cls)
}

func describe(es []entry, n int) string {
	var parts []string
	show := func(e entry) string {
		k := "out"
		if e.Err {
			k = "err"
		}
		return k + ":" + clip(e.text())
	}
	if len(es) <= 2*n {
		for _, e := range es {
			parts = append(parts, show(e))
		}
	} else {
		for _, e := range es[:n] {
			parts = append(parts, show(e))
		}
		parts = append(parts, fmt.Sprintf("… %d more …", len(es)-2*n))
		for _, e := range es[len(es)-n:] {
			parts = append(parts, show(e))
		}
	}
	return "[" + strings.Join(parts, " | ") + "]"
}

func nontrivial(c Case) bool {
	_, _, m1 := c.Out.writes(1)
	_, _, m2 := c.Err.writes(2)
	b1, _ := c.Out.bytesOf(1)
	b2, _ := c.Err.bytesOf(2)
	return m1 || m2 || len(b1) > 65536 || len(b2) > 65536 || c.Exit != 0 || c.Signal != 0 || c.Cancel != ""
}

func TestScripts(t *testing.T) {
	rapid.Check(t, func(rt *rapid.T) {
		c := genCase(rt)
		k, _ := json.Marshal(c)
		ev.Case(string(k), nontrivial(c), "entry/"+c.Entry, c)
		check(rt, "TestScripts", c)
	})
}

func init() {
	ev.RegisterReplay("TestScripts", func(t ev.T, raw json.RawMessage) {
		var c Case
		if err := json.Unmarshal(raw, &c); err != nil {
			t.Fatalf("HARNESS: %v", err)
		}
		for i := 0; i < 1 || i < c.Repeat; i++ {
			check(t, "TestScripts", c)
		}
	})
}

func TestReplay(t *testing.T)      { ev.RunReplay(t) }
func TestRegressions(t *testing.T) { ev.Regressions(t, prop) }
