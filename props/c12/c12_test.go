// Package c12 decides C12: timeout / cancellation runners always return and always signal the
// action; Parallelise invokes once per argument; cancel stores invoke every registered function.
// Built and run with the race detector.
package c12

import (
	"context"
	"encoding/json"
	"errors"
	"fmt"
	"reflect"
	"runtime"
	"sort"
	"strings"
	"sync"
	"sync/atomic"
	"testing"
	"time"

	"pgregory.net/rapid"

	"github.com/ARM-software/golang-utils/utils/commonerrors"
	"github.com/ARM-software/golang-utils/utils/parallelisation"

	"verif/internal/ev"
)

const prop = "C12"

func TestMain(m *testing.M) { ev.Main(m) }

type RunnerCase struct {
	Runner    string `json:"runner"`          // Timeout | TimeoutAndContext | TimeoutAndCancelStore | ParallelCheck
	TimeoutUs int    `json:"timeout_us"`      // 200..5000
	OffsetUs  int    `json:"offset_us"`       // completion instant of the action relative to the deadline
	Outcome   string `json:"action_outcome"`  // nil | error
	Observes  bool   `json:"observes_signal"` // the action returns as soon as it sees its stop signal
	Parent    string `json:"parent_context"`  // live | cancelled-before | cancelled-during | deadline-later (the parent has a deadline of its own, 3.2 s after the runner's)
	ParentUs  int    `json:"parent_cancel_offset_us,omitempty"`
	Busy      int    `json:"busy_goroutines"`
}

var errAction = errors.New("the action's own error")
var errObserved = errors.New("the action saw its stop signal")

func spinUntil(t time.Time) {
	for time.Now().Before(t) {
		if time.Until(t) > 300*time.Microsecond {
			time.Sleep(50 * time.Microsecond)
		}
	}
}

// load runs n busy goroutines until stop is closed.
func load(n int) (stop func()) {
	ch := make(chan struct{})
	var wg sync.WaitGroup
	for i := 0; i < n; i++ {
		wg.Add(1)
		go func() {
			defer wg.Done()
			x := 0
			for {
				select {
				case <-ch:
					return
				default:
					for k := 0; k < 2000; k++ {
						x += k
					}
					runtime.Gosched()
				}
			}
		}()
	}
	return func() { close(ch); wg.Wait() }
}

func dumpRunner() string {
	buf := make([]byte, 1<<20)
	n := runtime.Stack(buf, true)
	var out []string
	for _, g := range strings.Split(string(buf[:n]), "\n\n") {
		if strings.Contains(g, "parallelisation.RunAction") {
			lines := strings.Split(g, "\n")
			if len(lines) > 7 {
				lines = lines[:7]
			}
			out = append(out, strings.Join(lines, " | "))
		}
	}
	return strings.Join(out, " ;; ")
}

type obs struct {
	returnedAt   atomic.Int64 // unix nanos when the action returned (0 = not yet)
	sawSignal    atomic.Bool
	signalAtExit atomic.Bool // was the action's context / stop signal raised when the action returned
	started      atomic.Bool
	ctx          atomic.Value // the context handed to the action
}

func checkRunner(t ev.T, test string, c RunnerCase) {
	stopLoad := load(c.Busy)
	defer stopLoad()
	timeout := time.Duration(c.TimeoutUs) * time.Microsecond
	var o obs
	parent, parentCancel := context.WithCancel(context.Background())
	defer parentCancel()
	if c.Parent == "cancelled-before" {
		parentCancel()
	}
	if c.Parent == "deadline-later" {
		// a parent with a (much later) deadline of its own changes nothing: the runner's timeout still applies
		var dc context.CancelFunc
		parent, dc = context.WithDeadline(parent, time.Now().Add(timeout+3200*time.Millisecond))
		defer dc()
	}
	// measured scheduling latency of this very run: a reference timer set to the same timeout
	var refLate atomic.Int64
	t0 := time.Now()
	deadline := t0.Add(timeout)
	ref := time.AfterFunc(timeout, func() { refLate.Store(int64(time.Since(deadline))) })
	defer ref.Stop()
	finishAt := deadline.Add(time.Duration(c.OffsetUs) * time.Microsecond)
	own := func() error {
		if c.Outcome == "error" {
			return errAction
		}
		return nil
	}
	ctxAction := func(ctx context.Context) error {
		o.started.Store(true)
		o.ctx.Store(ctx)
		defer func() {
			o.signalAtExit.Store(ctx.Err() != nil)
			o.returnedAt.Store(time.Now().UnixNano())
		}()
		if c.Observes {
			for time.Now().Before(finishAt) {
				select {
				case <-ctx.Done():
					o.sawSignal.Store(true)
					return errObserved
				default:
				}
			}
			return own()
		}
		spinUntil(finishAt)
		return own()
	}
	chanAction := func(stop chan bool) error {
		o.started.Store(true)
		defer func() { o.returnedAt.Store(time.Now().UnixNano()) }()
		if c.Observes {
			for time.Now().Before(finishAt) {
				select {
				case <-stop:
					o.sawSignal.Store(true)
					o.signalAtExit.Store(true)
					return errObserved
				default:
				}
			}
			return own()
		}
		spinUntil(finishAt)
		return own()
	}
	if c.Parent == "cancelled-during" {
		go func() {
			spinUntil(deadline.Add(time.Duration(c.ParentUs) * time.Microsecond))
			parentCancel()
		}()
	}
	store := parallelisation.NewCancelFunctionsStore()
	// stall monitor: the clauses bounded by whole seconds presuppose a machine on which a runnable goroutine gets a
	// processor within a fraction of that; a 1 ms ticker of this process that was itself held up for more than 100 ms says
	// it did not (overloaded machine, shard confined to one processor)
	var maxGap atomic.Int64
	monitorDone := make(chan struct{})
	defer close(monitorDone)
	go func() {
		last := time.Now()
		for {
			select {
			case <-monitorDone:
				return
			default:
			}
			time.Sleep(time.Millisecond)
			now := time.Now()
			if g := int64(now.Sub(last)); g > maxGap.Load() {
				maxGap.Store(g)
			}
			last = now
		}
	}()
	stalled := func() bool { return time.Duration(maxGap.Load()) > 100*time.Millisecond }
	done := make(chan error, 1)
	go func() {
		var err error
		defer func() {
			if r := recover(); r != nil {
				err = fmt.Errorf("PANIC: %v", r)
			}
			done <- err
		}()
		switch c.Runner {
		case "Timeout":
			err = parallelisation.RunActionWithTimeout(chanAction, timeout)
		case "TimeoutAndContext":
			err = parallelisation.RunActionWithTimeoutAndContext(parent, timeout, ctxAction)
		case "TimeoutAndCancelStore":
			err = parallelisation.RunActionWithTimeoutAndCancelStore(parent, timeout, store, ctxAction)
		case "ParallelCheck":
			// the check goes false at the deadline: same shape, the "timeout" is signalled by the check
			err = parallelisation.RunActionWithParallelCheck(parent, ctxAction, func(context.Context) bool { return time.Now().Before(deadline) }, 50*time.Microsecond)
		}
	}()
	// (1) it returns: bounded by the action's own end plus a generous margin; beyond that the goroutine dump decides
	limit := time.Until(finishAt)
	if limit < 0 {
		limit = 0
	}
	var err error
	var returnedAt time.Time
	select {
	case err = <-done:
		returnedAt = time.Now()
	case <-time.After(limit + timeout + 2*time.Second):
		dump := dumpRunner()
		if stalled() {
			ev.Inconclusive("the process was held up for more than 100 ms while a runner was expected to return: not judged")
			// (the goroutines are left to finish by themselves)
			return
		}
		if o.returnedAt.Load() != 0 || !o.started.Load() {
			ev.Fail(t, prop, test, c, "the runner has not returned 2 s after the action returned (action returned: %v); runner goroutines: %s", o.returnedAt.Load() != 0, dump)
		}
		ev.Fail(t, prop, test, c, "neither the action nor the runner returned within 2 s of the planned end; goroutines: %s", dump)
	}
	if err != nil && strings.HasPrefix(err.Error(), "PANIC") {
		ev.Fail(t, prop, test, c, "runner panicked: %v", err)
	}
	eps := 3*time.Duration(refLate.Load()) + 300*time.Microsecond
	if eps < 300*time.Microsecond {
		eps = 300 * time.Microsecond
	}
	if c.Busy > 0 {
		eps += time.Millisecond
	}
	ev.MetricMax("epsilon_us", float64(eps.Microseconds()))
	isCtxKind := commonerrors.Any(err, commonerrors.ErrTimeout, commonerrors.ErrCancelled)
	usesCtx := c.Runner != "Timeout"
	// parent context already done: nothing runs
	if c.Parent == "cancelled-before" && usesCtx {
		if !commonerrors.Any(err, commonerrors.ErrCancelled) {
			ev.Fail(t, prop, test, c, "parent context cancelled before the call: runner returned %v, want the cancelled kind", err)
		}
		return
	}
	if !o.started.Load() {
		if c.Parent == "cancelled-during" && usesCtx && commonerrors.Any(err, commonerrors.ErrCancelled) {
			return // the parent was cancelled before the runner got to start the action
		}
		ev.Fail(t, prop, test, c, "the action was never started (runner returned %v)", err)
	}
	// the runner never returns before the action has returned (it waits for it on every path)
	ta := time.Unix(0, o.returnedAt.Load())
	_ = ta
	if o.returnedAt.Load() == 0 {
		ev.Fail(t, prop, test, c, "the runner returned (%v) while the action was still running", err)
	}
	// (2) result
	parentEnd := deadline.Add(time.Duration(c.ParentUs) * time.Microsecond)
	earliestSignal := deadline
	if c.Parent == "cancelled-during" && usesCtx && parentEnd.Before(deadline) {
		earliestSignal = parentEnd
	}
	// The verdicts below are chosen so that they do not depend on how late the runner's own goroutine or timer was
	// scheduled (under load both the action's channel and the timer can be ready when the runner looks: either is fine).
	switch {
	case o.sawSignal.Load():
		// the action stopped because it saw its signal: the runner reports timeout / cancelled
		if !isCtxKind {
			ev.Fail(t, prop, test, c, "the action returned because it observed its stop signal, but the runner returned %v instead of the timeout/cancelled kind", err)
		}
	case returnedAt.Before(earliestSignal.Add(-eps)):
		// the runner itself came back clearly before any deadline: it can only report the action's own result
		if c.Outcome == "nil" && err != nil {
			ev.Fail(t, prop, test, c, "the runner returned %v before the deadline with %v although the action had finished with nil", earliestSignal.Sub(returnedAt), err)
		}
		if c.Outcome == "error" && !errors.Is(err, errAction) {
			ev.Fail(t, prop, test, c, "the runner returned %v before the deadline with %v although the action had finished with its own error", earliestSignal.Sub(returnedAt), err)
		}
		ev.Class("returned-before-deadline")
	default:
		if err != nil && !isCtxKind && !errors.Is(err, errAction) {
			ev.Fail(t, prop, test, c, "runner returned %v: neither the action's result nor a timeout/cancelled kind", err)
		}
		if err == nil && c.Outcome == "error" {
			ev.Fail(t, prop, test, c, "runner returned nil although the action returned its own error")
		}
		ev.Class("around-or-after-deadline")
	}
	// the stop signal is triggered: an action still polling it a full second after the deadline must have seen it
	if c.Observes && !o.sawSignal.Load() && ta.After(earliestSignal.Add(eps+time.Second)) && stalled() {
		ev.Inconclusive("the process was held up for more than 100 ms while an action was polling its stop signal: not judged")
	} else if c.Observes && !o.sawSignal.Load() && ta.After(earliestSignal.Add(eps+time.Second)) {
		ev.Fail(t, prop, test, c, "the action polled its stop signal until %v after the deadline and never saw it (runner returned %v)", ta.Sub(earliestSignal).Round(time.Millisecond), err)
	}
	// no early verdict: a timeout / cancelled kind cannot be reported before the earliest signal instant
	if isCtxKind && returnedAt.Before(earliestSignal.Add(-100*time.Microsecond)) {
		ev.Fail(t, prop, test, c, "runner returned %v as early as %v before the deadline / parent cancellation", err, earliestSignal.Sub(returnedAt))
	}
	// a timeout / cancelled verdict means that the action was signalled: an observing action that was still
	// polling at that moment must have seen it
	if isCtxKind && c.Observes && !o.sawSignal.Load() && ta.Before(finishAt.Add(-eps)) {
		ev.Fail(t, prop, test, c, "runner returned %v but the action (which polls its signal) returned %v early without having seen it", err, finishAt.Sub(ta))
	}
	// (3) the context handed to the action is done on every exit path
	if usesCtx {
		actx, _ := o.ctx.Load().(context.Context)
		if c.Runner == "TimeoutAndCancelStore" {
			store.Cancel()
		}
		if actx != nil && actx.Err() == nil {
			ev.Fail(t, prop, test, c, "%s returned %v but the context handed to the action is still live", c.Runner, err)
		}
	}
}

func genRunner(t *rapid.T) RunnerCase {
	c := RunnerCase{Runner: rapid.SampledFrom([]string{"Timeout", "Timeout", "TimeoutAndContext", "TimeoutAndCancelStore", "ParallelCheck"}).Draw(t, "runner")}
	c.TimeoutUs = rapid.IntRange(200, 5000).Draw(t, "timeout_us")
	if rapid.IntRange(0, 11).Draw(t, "no-time-at-all") == 0 {
		c.TimeoutUs = 0 // a timeout of zero is a deadline that has already passed, not "no deadline"
	}
	c.OffsetUs = rapid.IntRange(-2000, 2000).Draw(t, "offset_us")
	if -c.OffsetUs > c.TimeoutUs {
		c.OffsetUs = -c.TimeoutUs
	}
	c.Outcome = rapid.SampledFrom([]string{"nil", "error"}).Draw(t, "outcome")
	c.Observes = rapid.Bool().Draw(t, "observes")
	if c.Observes && rapid.IntRange(0, 9).Draw(t, "patient") == 0 {
		// an action that keeps working (and polling its stop signal) for three seconds past the deadline unless it is told to stop
		c.OffsetUs = 3000000
	}
	c.Parent = rapid.SampledFrom([]string{"live", "live", "live", "cancelled-before", "cancelled-during", "deadline-later"}).Draw(t, "parent")
	if c.Parent == "cancelled-during" {
		c.ParentUs = rapid.IntRange(-c.TimeoutUs, 1000).Draw(t, "parent_us")
	}
	c.Busy = rapid.SampledFrom([]int{0, 0, 1, 4, 16}).Draw(t, "busy")
	return c
}

func (c RunnerCase) nontrivial() bool { return c.OffsetUs >= -500 && c.OffsetUs <= 500 }

func TestRunners(t *testing.T) {
	rapid.Check(t, func(rt *rapid.T) {
		c := genRunner(rt)
		key, _ := json.Marshal(c)
		ev.Case(string(key), c.nontrivial(), "runner/"+c.Runner, c)
		checkRunner(rt, "TestRunners", c)
	})
}

// TestRunnerSweep sweeps the completion instant across the deadline in fixed steps for every runner.
func TestRunnerSweep(t *testing.T) {
	step := 20
	if ev.Thorough() {
		step = 1
	}
	shard, shards := ev.Shard()
	var n, nt int64
	i := 0
	for _, runner := range []string{"Timeout", "TimeoutAndContext", "TimeoutAndCancelStore", "ParallelCheck"} {
		for off := -2000; off <= 2000; off += step {
			i++
			if i%shards != shard {
				continue
			}
			c := RunnerCase{Runner: runner, TimeoutUs: 2500, OffsetUs: off, Outcome: []string{"nil", "error"}[i%2], Observes: (i/2)%2 == 0, Parent: "live", Busy: []int{0, 0, 4, 16}[(i/4)%4]}
			checkRunner(t, "TestRunners", c)
			n++
			if c.nontrivial() {
				nt++
			}
		}
	}
	ev.Bulk(n, nt, "runner-sweep")
	ev.Sample(RunnerCase{Runner: "Timeout", TimeoutUs: 2500, OffsetUs: -20, Outcome: "nil", Parent: "live"})
}

// ---- Parallelise ----------------------------------------------------------------------------------------------

type ParCase struct {
	Args     int   `json:"args"`
	FailAt   []int `json:"failing_args"`
	KeepType bool  `json:"collect_results"`
	DelayUs  []int `json:"delays_us"`
	// NilAt: the invocations for these arguments return a nil result (results are then collected as []interface{}, of which
	// nil is an ordinary element)
	NilAt []int `json:"nil_results_at,omitempty"`
}

func checkPar(t ev.T, test string, c ParCase) {
	args := make([]int, c.Args)
	for i := range args {
		args[i] = i
	}
	fail := map[int]bool{}
	for _, f := range c.FailAt {
		fail[f] = true
	}
	nilAt := map[int]bool{}
	for _, f := range c.NilAt {
		nilAt[f] = true
	}
	base := runtime.NumGoroutine()
	var mu sync.Mutex
	calls := map[int]int{}
	errs := map[string]bool{}
	action := func(arg interface{}) (interface{}, error) {
		i := arg.(int)
		if len(c.DelayUs) > 0 {
			time.Sleep(time.Duration(c.DelayUs[i%len(c.DelayUs)]) * time.Microsecond)
		}
		mu.Lock()
		calls[i]++
		mu.Unlock()
		if fail[i] {
			e := fmt.Errorf("arg %d failed", i)
			mu.Lock()
			errs[e.Error()] = true
			mu.Unlock()
			return nil, e
		}
		if nilAt[i] {
			return nil, nil
		}
		return i * 10, nil
	}
	var rt reflect.Type
	if c.KeepType {
		rt = reflect.TypeOf([]int{})
		if len(c.NilAt) > 0 {
			rt = reflect.TypeOf([]interface{}{})
		}
	}
	var res interface{}
	var err error
	done := make(chan struct{})
	go func() {
		defer close(done)
		ev.Guard(t, prop, test, c, func() { res, err = parallelisation.Parallelise(args, action, rt) })
	}()
	select {
	case <-done:
	case <-time.After(10 * time.Second):
		ev.Fail(t, prop, test, c, "Parallelise did not return within 10 s")
	}
	// all invocations end (none is left blocked): goroutine count back to the baseline
	deadline := time.Now().Add(5 * time.Second)
	for runtime.NumGoroutine() > base && time.Now().Before(deadline) {
		time.Sleep(200 * time.Microsecond)
	}
	if g := runtime.NumGoroutine(); g > base {
		ev.Fail(t, prop, test, c, "%d goroutines are still alive 5 s after Parallelise returned (baseline %d)", g, base)
	}
	mu.Lock()
	defer mu.Unlock()
	for i := 0; i < c.Args; i++ {
		if calls[i] != 1 {
			ev.Fail(t, prop, test, c, "the action was invoked %d times for argument %d", calls[i], i)
		}
	}
	anyFail := false
	for i := 0; i < c.Args; i++ {
		if fail[i] {
			anyFail = true
		}
	}
	if err != nil {
		if !errs[err.Error()] {
			ev.Fail(t, prop, test, c, "Parallelise returned the error %q which no invocation returned", err)
		}
		return
	}
	if anyFail {
		ev.Fail(t, prop, test, c, "an invocation failed but Parallelise returned nil")
	}
	if c.KeepType && len(c.NilAt) > 0 {
		got, ok := res.([]interface{})
		if !ok || len(got) != c.Args {
			ev.Fail(t, prop, test, c, "results have type %T and length %d for %d arguments", res, len(got), c.Args)
		}
		nils, sum := 0, 0
		for _, v := range got {
			if v == nil {
				nils++
			} else if iv, isInt := v.(int); isInt {
				sum += iv
			}
		}
		wantNils, wantSum := 0, 0
		for i := 0; i < c.Args; i++ {
			if nilAt[i] {
				wantNils++
			} else {
				wantSum += i * 10
			}
		}
		if nils != wantNils || sum != wantSum {
			ev.Fail(t, prop, test, c, "results are not the multiset of the invocations' results: %d nil (want %d), sum of the others %d (want %d)", nils, wantNils, sum, wantSum)
		}
		return
	}
	if c.KeepType {
		got, ok := res.([]int)
		if !ok {
			ev.Fail(t, prop, test, c, "results have type %T", res)
		}
		sort.Ints(got)
		if len(got) != c.Args {
			ev.Fail(t, prop, test, c, "%d results for %d arguments", len(got), c.Args)
		}
		for i, v := range got {
			if v != i*10 {
				ev.Fail(t, prop, test, c, "results are not the multiset of the invocations' results: %v", got)
			}
		}
	}
}

func TestParallelise(t *testing.T) {
	rapid.Check(t, func(rt *rapid.T) {
		c := ParCase{Args: rapid.IntRange(0, 64).Draw(rt, "args"), KeepType: rapid.Bool().Draw(rt, "keep")}
		if c.Args > 0 && rapid.IntRange(0, 2).Draw(rt, "failures") == 0 {
			c.FailAt = rapid.SliceOfN(rapid.IntRange(0, c.Args-1), 1, 4).Draw(rt, "fail-at")
		}
		if rapid.Bool().Draw(rt, "delays") {
			c.DelayUs = rapid.SliceOfN(rapid.IntRange(0, 800), 1, 5).Draw(rt, "delays_us")
		}
		if c.Args > 0 && c.KeepType && rapid.IntRange(0, 3).Draw(rt, "nil-results") == 0 {
			c.NilAt = rapid.SliceOfN(rapid.IntRange(0, c.Args-1), 1, 4).Draw(rt, "nil-at")
		}
		key, _ := json.Marshal(c)
		ev.Case(string(key), len(c.FailAt) > 0 || c.Args > 1, "parallelise", c)
		checkPar(rt, "TestParallelise", c)
	})
}

// ---- cancel store --------------------------------------------------------------------------------------------------

type StoreCase struct {
	Workers int     `json:"goroutines"`
	Scripts [][]int `json:"scripts"` // per goroutine: 0 Register, 1 Cancel, 2 Len, 3 yield, 4 Register two functions through a buffer that the goroutine re-uses
}

func checkStore(t ev.T, test string, c StoreCase) {
	store := parallelisation.NewCancelFunctionsStore()
	var clock atomic.Int64
	type reg struct {
		at    int64
		calls *atomic.Int64
	}
	var mu sync.Mutex
	var regs []reg
	var cancelStarts []int64
	var wg sync.WaitGroup
	start := make(chan struct{})
	for w := 0; w < c.Workers; w++ {
		wg.Add(1)
		go func(script []int) {
			defer wg.Done()
			<-start
			buf := make([]context.CancelFunc, 0, 8) // the caller's own slice: what it does with it later is its business
			for _, op := range script {
				switch op {
				case 4:
					c1, c2 := &atomic.Int64{}, &atomic.Int64{}
					buf = append(buf[:0], func() { c1.Add(1) }, func() { c2.Add(1) })
					store.RegisterCancelFunction(buf...)
					at := clock.Add(1)
					mu.Lock()
					regs = append(regs, reg{at, c1}, reg{at, c2})
					mu.Unlock()
					for i := range buf {
						buf[i] = func() {} // the buffer is re-used
					}
				case 0:
					calls := &atomic.Int64{}
					store.RegisterCancelFunction(func() { calls.Add(1) })
					at := clock.Add(1) // registration completed before this instant
					mu.Lock()
					regs = append(regs, reg{at, calls})
					mu.Unlock()
				case 1:
					at := clock.Add(1) // the Cancel begins after this instant
					store.Cancel()
					mu.Lock()
					cancelStarts = append(cancelStarts, at)
					mu.Unlock()
				case 2:
					if store.Len() < 0 {
						panic("negative length")
					}
				default:
					runtime.Gosched()
				}
			}
		}(c.Scripts[w%len(c.Scripts)])
	}
	close(start)
	doneCh := make(chan struct{})
	go func() { wg.Wait(); close(doneCh) }()
	select {
	case <-doneCh:
	case <-time.After(20 * time.Second):
		ev.Fail(t, prop, test, c, "concurrent Register / Cancel / Len did not finish within 20 s")
	}
	mu.Lock()
	defer mu.Unlock()
	for i, r := range regs {
		must := 0
		for _, cs := range cancelStarts {
			if cs > r.at {
				must++
			}
		}
		if got := int(r.calls.Load()); got < must {
			ev.Fail(t, prop, test, c, "cancel function #%d (registered at logical time %d) was invoked %d times although %d Cancel calls began after its registration", i, r.at, got, must)
		} else if got > len(cancelStarts) {
			ev.Fail(t, prop, test, c, "cancel function #%d was invoked %d times by %d Cancel calls", i, got, len(cancelStarts))
		}
	}
	if n := store.Len(); n != len(regs) {
		ev.Fail(t, prop, test, c, "Len() = %d after %d registrations", n, len(regs))
	}
}

func TestCancelStore(t *testing.T) {
	rapid.Check(t, func(rt *rapid.T) {
		c := StoreCase{Workers: rapid.IntRange(1, 8).Draw(rt, "workers")}
		ns := rapid.IntRange(1, c.Workers).Draw(rt, "scripts")
		for i := 0; i < ns; i++ {
			c.Scripts = append(c.Scripts, rapid.SliceOfN(rapid.IntRange(0, 4), 1, 40).Draw(rt, fmt.Sprintf("script%d", i)))
		}
		key, _ := json.Marshal(c)
		ev.Case(string(key), c.Workers > 1, "cancel-store", c)
		checkStore(rt, "TestCancelStore", c)
	})
}

func init() {
	ev.RegisterReplay("TestRunners", func(t ev.T, raw json.RawMessage) {
		var c RunnerCase
		if err := json.Unmarshal(raw, &c); err != nil {
			t.Fatalf("HARNESS: %v", err)
		}
		// schedule dependent: repeat
		for i := 0; i < 300; i++ {
			checkRunner(t, "TestRunners", c)
		}
	})
	ev.RegisterReplay("TestParallelise", func(t ev.T, raw json.RawMessage) {
		var c ParCase
		if err := json.Unmarshal(raw, &c); err != nil {
			t.Fatalf("HARNESS: %v", err)
		}
		checkPar(t, "TestParallelise", c)
	})
	ev.RegisterReplay("TestCancelStore", func(t ev.T, raw json.RawMessage) {
		var c StoreCase
		if err := json.Unmarshal(raw, &c); err != nil {
			t.Fatalf("HARNESS: %v", err)
		}
		checkStore(t, "TestCancelStore", c)
	})
}

func TestReplay(t *testing.T)      { ev.RunReplay(t) }
func TestRegressions(t *testing.T) { ev.Regressions(t, prop) }
