// Package c14 decides C14: retries are bounded and back-off waits stay in range.
package c14

import (
	"context"
	"encoding/json"
	"errors"
	"fmt"
	"math"
	"math/big"
	nethttp "net/http"
	"strings"
	"testing"
	"time"

	"github.com/go-logr/logr"
	"pgregory.net/rapid"

	"github.com/ARM-software/golang-utils/utils/commonerrors"
	libhttp "github.com/ARM-software/golang-utils/utils/http"
	"github.com/ARM-software/golang-utils/utils/retry"

	"verif/internal/ev"
)

const prop = "C14"

func TestMain(m *testing.M) { ev.Main(m) }

// ===== Part 1: retry loop ==============================================================

// Outcome of one scripted attempt.
const (
	oSuccess        = "success"
	oRetriable      = "retriable"
	oFatal          = "non-retriable"
	oCancelThenFail = "cancel-ctx-then-retriable"
	oCancelThenOK   = "cancel-ctx-then-success"
)

type LoopCase struct {
	Enabled  bool     `json:"enabled"`
	Attempts int      `json:"attempts"`
	MinUs    int      `json:"min_us"`
	MaxUs    int      `json:"max_us"`
	Policy   string   `json:"policy"` // constant | exponential | linear
	Script   []string `json:"script"` // outcome per attempt; the last one repeats
	Entry    string   `json:"entry"`  // RetryIf | RetryOnError | http.RetryOnError
	PreDone  bool     `json:"ctx_done_at_call"`
	Deadline bool     `json:"deadline_instead_of_cancel"`
	// FatalKind: what the non-retriable failure is made of: "" a bespoke error; otherwise an error of that library kind
	// (a timeout reported by the operation itself is not a reason to try again unless the caller listed it)
	FatalKind string `json:"fatal_kind,omitempty"` // "" | timeout | notfound | unexpected | ctx-deadline | ctx-cancel (a context error of the attempt's own making, the helper's context being alive)
}

var errRetriable = errors.New("scripted retriable failure")
var errFatalBespoke = errors.New("scripted fatal failure")
var errFatal = errFatalBespoke

func fatalFor(kind string) error {
	switch kind {
	case "timeout":
		return fmt.Errorf("%w: the remote end timed out", commonerrors.ErrTimeout)
	case "notfound":
		return fmt.Errorf("%w: no such thing", commonerrors.ErrNotFound)
	case "unexpected":
		return commonerrors.ErrUnexpected
	case "ctx-deadline":
		// the attempt's own time limit (not the context given to the helper) ran out
		return fmt.Errorf("the attempt gave up: %w", context.DeadlineExceeded)
	case "ctx-cancel":
		return fmt.Errorf("the attempt was called off: %w", context.Canceled)
	}
	return errFatalBespoke
}

func genLoop(t *rapid.T) LoopCase {
	c := LoopCase{Enabled: rapid.IntRange(0, 9).Draw(t, "enabled") > 0, Attempts: rapid.IntRange(1, 8).Draw(t, "attempts")}
	c.Policy = rapid.SampledFrom([]string{"constant", "constant", "exponential", "exponential", "linear"}).Draw(t, "policy")
	c.MinUs = rapid.SampledFrom([]int{0, 0, 0, 1, 50, 300, 1000}).Draw(t, "min_us")
	c.MaxUs = c.MinUs + rapid.SampledFrom([]int{0, 0, 100, 2000}).Draw(t, "max_extra_us")
	n := rapid.IntRange(1, 9).Draw(t, "script-len")
	for i := 0; i < n; i++ {
		c.Script = append(c.Script, rapid.SampledFrom([]string{oRetriable, oRetriable, oRetriable, oSuccess, oFatal, oCancelThenFail, oCancelThenOK}).Draw(t, fmt.Sprintf("o%d", i)))
	}
	c.Entry = rapid.SampledFrom([]string{"RetryIf", "RetryOnError", "http.RetryOnError"}).Draw(t, "entry")
	c.PreDone = rapid.IntRange(0, 11).Draw(t, "predone") == 0
	c.Deadline = rapid.Bool().Draw(t, "deadline")
	c.FatalKind = rapid.SampledFrom([]string{"", "", "timeout", "timeout", "notfound", "unexpected", "ctx-deadline", "ctx-cancel"}).Draw(t, "fatal-kind")
	return c
}

func (c LoopCase) outcome(i int) string {
	if i < len(c.Script) {
		return c.Script[i]
	}
	return c.Script[len(c.Script)-1]
}

func (c LoopCase) nontrivial() bool {
	seenFail := false
	for _, o := range c.Script {
		if seenFail && (o == oSuccess || o == oCancelThenFail || o == oCancelThenOK) {
			return true
		}
		if o == oRetriable {
			seenFail = true
		}
	}
	return false
}

type attemptRec struct {
	ctxDoneAtStart bool
	outcome        string
}

func checkLoop(t ev.T, test string, c LoopCase) {
	errFatal = fatalFor(c.FatalKind) // (cases run one after the other within a process)
	cfg := &retry.RetryPolicyConfiguration{Enabled: c.Enabled, RetryMax: c.Attempts, RetryWaitMin: time.Duration(c.MinUs) * time.Microsecond,
		RetryWaitMax: time.Duration(c.MaxUs) * time.Microsecond, BackOffEnabled: c.Policy != "constant", LinearBackOffEnabled: c.Policy == "linear"}
	var ctx context.Context
	var cancel context.CancelFunc
	if c.Deadline {
		// "deadline": the scripted attempt replaces the context's deadline by one in the past
		ctx, cancel = context.WithCancel(context.Background())
	} else {
		ctx, cancel = context.WithCancel(context.Background())
	}
	defer cancel()
	// a context whose Err() we can switch to DeadlineExceeded: derive with an already expired deadline on demand
	dctx := &switchCtx{Context: ctx}
	if c.PreDone {
		dctx.finish(c.Deadline, cancel)
	}
	var recs []attemptRec
	fn := func() error {
		i := len(recs)
		o := c.outcome(i)
		recs = append(recs, attemptRec{ctxDoneAtStart: dctx.Err() != nil, outcome: o})
		switch o {
		case oSuccess:
			return nil
		case oRetriable:
			// (every failed attempt also carries something of its own: the caller is to receive the LAST error, not a bundle)
			return fmt.Errorf("attempt %d: %w (%w)", i, errRetriable, attemptMark(i))
		case oFatal:
			return fmt.Errorf("attempt %d: %w", i, errFatal)
		case oCancelThenFail:
			dctx.finish(c.Deadline, cancel)
			return fmt.Errorf("attempt %d: %w", i, errRetriable)
		default:
			dctx.finish(c.Deadline, cancel)
			return nil
		}
	}
	var res error
	ev.Guard(t, prop, test, c, func() {
		done := make(chan struct{})
		go func() {
			defer close(done)
			switch c.Entry {
			case "RetryIf":
				res = retry.RetryIf(dctx, logr.Discard(), cfg, fn, "retrying", func(err error) bool { return errors.Is(err, errRetriable) })
			case "RetryOnError":
				res = retry.RetryOnError(dctx, logr.Discard(), cfg, fn, "retrying", errRetriable)
			default:
				res = libhttp.RetryOnError(dctx, logr.Discard(), cfg, fn, "retrying", errRetriable)
			}
		}()
		select {
		case <-done:
		case <-time.After(20 * time.Second):
			ev.Fail(t, prop, test, c, "the retry loop did not return within 20 s (waits are <= 3 ms + 25 ms jitter, attempts <= 8)")
		}
	})
	n := len(recs)
	// reference
	if !c.Enabled {
		if c.PreDone && n == 0 {
			// the context was already done at the call: no attempt, as when retries are enabled
		} else if n != 1 {
			ev.Fail(t, prop, test, c, "retries disabled: %d attempts, want exactly 1", n)
		}
	}
	if n > c.Attempts && c.Enabled {
		ev.Fail(t, prop, test, c, "%d attempts made, configured maximum %d", n, c.Attempts)
	}
	if n < 1 && !c.PreDone {
		ev.Fail(t, prop, test, c, "no attempt made")
	}
	succeeded := false
	for i, r := range recs {
		last := i == n-1
		ok := r.outcome == oSuccess || r.outcome == oCancelThenOK
		if ok {
			succeeded = true
		}
		if !last {
			if ok {
				ev.Fail(t, prop, test, c, "attempt %d succeeded but attempt %d was made", i, i+1)
			}
			if r.outcome == oFatal {
				ev.Fail(t, prop, test, c, "attempt %d failed with a non-retriable error but attempt %d was made", i, i+1)
			}
		}
		if r.ctxDoneAtStart && (i > 0 || c.PreDone) {
			ev.Fail(t, prop, test, c, "attempt %d was started although the context was already done (it ended during attempt %d)", i, firstDone(recs))
		}
	}
	if succeeded != (res == nil) {
		// a pre-done context may legitimately prevent every attempt
		if !(c.PreDone && n == 0 && res != nil) {
			ev.Fail(t, prop, test, c, "result %v, but some attempt succeeded = %v (attempts: %+v)", res, succeeded, recs)
		}
	}
	if res != nil && n > 1 && c.Enabled {
		// the last error, not the earlier ones
		for j := 0; j < n-1 && j < len(attemptMarks); j++ {
			if recs[j].outcome == oRetriable && recs[n-1].outcome != oCancelThenFail && dctx.Err() == nil {
				if errors.Is(res, attemptMarks[j]) && !(recs[n-1].outcome == oRetriable && (n-1)%len(attemptMarks) == j) {
					ev.Fail(t, prop, test, c, "the result %q still carries the error of attempt %d although %d attempts were made: the caller is to receive the last error", res, j, n)
				}
			}
		}
	}
	if res != nil && n > 0 {
		lastOutcome := recs[n-1].outcome
		ctxEnded := dctx.Err() != nil
		switch {
		case !c.Enabled && lastOutcome == oFatal && strings.HasPrefix(c.FatalKind, "ctx-"):
			// one attempt, whose own context error is reported as the kind like everywhere else
			want := commonerrors.ErrTimeout
			if c.FatalKind == "ctx-cancel" {
				want = commonerrors.ErrCancelled
			}
			if !commonerrors.Any(res, want) {
				ev.Fail(t, prop, test, c, "retries disabled: the only attempt failed with a context error (%v) but the result %q is not of kind %v", errFatal, res, want)
			}
		case !c.Enabled:
			// the error of the only attempt
			if !errors.Is(res, errRetriable) && !errors.Is(res, errFatal) {
				ev.Fail(t, prop, test, c, "retries disabled: result %v is not the error of the only attempt", res)
			}
		case ctxEnded && lastOutcome != oFatal && n < c.Attempts:
			// stopped by the context: context errors are reported as cancelled / timeout
			want := commonerrors.ErrCancelled
			if c.Deadline {
				want = commonerrors.ErrTimeout
			}
			if !commonerrors.Any(res, want) {
				ev.Fail(t, prop, test, c, "the loop was stopped by the context (after %d of %d attempts) but returned %q, want kind %v", n, c.Attempts, res, want)
			}
		case ctxEnded:
			// last attempt allowed anyway, or a fatal error in the attempt that ended the context: either the last error or the context kind
			if !errors.Is(res, errRetriable) && !errors.Is(res, errFatal) && !commonerrors.Any(res, commonerrors.ErrCancelled, commonerrors.ErrTimeout) {
				ev.Fail(t, prop, test, c, "result %q is neither the last error nor a context kind", res)
			}
		case lastOutcome == oFatal && strings.HasPrefix(c.FatalKind, "ctx-"):
			// "context errors being reported as 'cancelled' / 'timeout'": whoever's context it was
			want := commonerrors.ErrTimeout
			if c.FatalKind == "ctx-cancel" {
				want = commonerrors.ErrCancelled
			}
			if !commonerrors.Any(res, want) {
				ev.Fail(t, prop, test, c, "the last attempt failed with a context error of its own (%v) while the helper's context was alive: result %q is not of kind %v", errFatal, res, want)
			}
			ev.Class("the last error was a context error of the attempt's own")
		default:
			want := errRetriable
			if lastOutcome == oFatal {
				want = errFatal
			}
			if !errors.Is(res, want) || !containsAttempt(res, n-1) {
				ev.Fail(t, prop, test, c, "result %q is not the last error (attempt %d, %v)", res, n-1, want)
			}
		}
	}
	if res != nil && n == 0 {
		if !commonerrors.Any(res, commonerrors.ErrCancelled, commonerrors.ErrTimeout) {
			ev.Fail(t, prop, test, c, "context done at the call: result %q is not cancelled/timeout", res)
		}
	}
}

// attemptMark is what attempt i's retriable failure wraps besides the retriable sentinel: a sentinel of its own.
var attemptMarks = func() []error {
	var m []error
	for i := 0; i < 16; i++ {
		m = append(m, fmt.Errorf("mark of attempt %d", i))
	}
	return m
}()

func attemptMark(i int) error { return attemptMarks[i%len(attemptMarks)] }

func containsAttempt(err error, i int) bool {
	return err != nil && len(err.Error()) > 0 && (contains(err.Error(), fmt.Sprintf("attempt %d:", i)))
}

func contains(s, sub string) bool {
	for i := 0; i+len(sub) <= len(s); i++ {
		if s[i:i+len(sub)] == sub {
			return true
		}
	}
	return false
}

func firstDone(recs []attemptRec) int {
	for i, r := range recs {
		if r.outcome == oCancelThenFail || r.outcome == oCancelThenOK {
			return i
		}
	}
	return -1
}

// switchCtx is a context that can be ended either as cancelled or as deadline-exceeded.
type switchCtx struct {
	context.Context
	deadline bool
	done     chan struct{}
}

func (s *switchCtx) finish(deadline bool, cancel context.CancelFunc) {
	s.deadline = deadline
	cancel()
}

func (s *switchCtx) Err() error {
	if err := s.Context.Err(); err != nil {
		if s.deadline {
			return context.DeadlineExceeded
		}
		return err
	}
	return nil
}

func replayLoop(t ev.T, raw json.RawMessage) {
	var c LoopCase
	if err := json.Unmarshal(raw, &c); err != nil {
		t.Fatalf("HARNESS: %v", err)
	}
	// schedule-dependent (retry-go selects between an expired timer and ctx.Done()): repeat
	for i := 0; i < 200; i++ {
		checkLoop(t, "TestRetryLoop", c)
	}
}

func TestRetryLoop(t *testing.T) {
	rapid.Check(t, func(rt *rapid.T) {
		c := genLoop(rt)
		key, _ := json.Marshal(c)
		ev.Case(string(key), c.nontrivial(), "loop/"+c.Policy+"/"+c.Entry, c)
		checkLoop(rt, "TestRetryLoop", c)
	})
}

// TestRetryLoopZeroWaitCancel targets the region where the wait is zero and the
// context ends inside an attempt (the timer is already expired when the library selects).
func TestRetryLoopZeroWaitCancel(t *testing.T) {
	rapid.Check(t, func(rt *rapid.T) {
		c := LoopCase{Enabled: true, Attempts: rapid.IntRange(2, 8).Draw(rt, "attempts"), Policy: rapid.SampledFrom([]string{"constant", "exponential"}).Draw(rt, "policy"),
			Entry: rapid.SampledFrom([]string{"RetryIf", "RetryOnError", "http.RetryOnError"}).Draw(rt, "entry"), Deadline: rapid.Bool().Draw(rt, "deadline")}
		k := rapid.IntRange(0, c.Attempts-2).Draw(rt, "cancel-in-attempt")
		for i := 0; i < k; i++ {
			c.Script = append(c.Script, oRetriable)
		}
		c.Script = append(c.Script, oCancelThenFail, oRetriable)
		key, _ := json.Marshal(c)
		ev.Case(string(key), true, "loop/zero-wait-cancel", c)
		for i := 0; i < 20; i++ {
			checkLoop(rt, "TestRetryLoop", c)
		}
	})
}

// ===== Part 2: wait policies ============================================================

type WaitCase struct {
	Policy    string `json:"policy"` // constant | linear | exponential | factory:<flags>
	MinNs     int64  `json:"min_ns"` // 0 <= min <= max
	MaxNs     int64  `json:"max_ns"`
	Attempt   int    `json:"attempt"` // 0..2^31-1
	Honour    bool   `json:"honour_retry_after"`
	Status    int    `json:"status"` // 0 = nil response
	HasHeader bool   `json:"has_header"`
	Header    string `json:"header"`
	HeaderIn  string `json:"header_kind"` // seconds | date-past | date-future | garbage | ""
	OffsetS   int64  `json:"date_offset_s,omitempty"`
	Layout    string `json:"date_layout,omitempty"`
}

var durChoices = []int64{0, 1, 999, 1000, 1_000_000, 250_000_000, 1_000_000_000, 30_000_000_000, 3_600_000_000_000, 36_000_000_000_000_000,
	1 << 31, 1<<31 + 1, 1 << 32, 1 << 40, 1 << 52, 1<<53 + 1, 1 << 61, 1 << 62, math.MaxInt64 / 3, math.MaxInt64 / 2, math.MaxInt64 - 1, math.MaxInt64}

func genDur(t *rapid.T, label string) int64 {
	switch rapid.IntRange(0, 3).Draw(t, label+"-class") {
	case 0:
		return rapid.SampledFrom(durChoices).Draw(t, label)
	case 1:
		return rapid.Int64Range(0, int64(10*time.Second)).Draw(t, label)
	case 2:
		return rapid.Int64Range(0, int64(10000*time.Hour)).Draw(t, label)
	default:
		return rapid.Int64Range(0, math.MaxInt64).Draw(t, label)
	}
}

func genAttempt(t *rapid.T) int {
	switch rapid.IntRange(0, 4).Draw(t, "attempt-class") {
	case 0:
		return rapid.IntRange(0, 12).Draw(t, "attempt")
	case 1:
		p := rapid.IntRange(0, 31).Draw(t, "attempt-pow")
		v := (int64(1) << uint(p)) + int64(rapid.IntRange(-2, 2).Draw(t, "attempt-d"))
		if v < 0 {
			v = 0
		}
		if v > math.MaxInt32 {
			v = math.MaxInt32
		}
		return int(v)
	case 2:
		return rapid.IntRange(0, 70).Draw(t, "attempt")
	case 3:
		return rapid.IntRange(0, 4000).Draw(t, "attempt")
	default:
		return rapid.IntRange(0, math.MaxInt32).Draw(t, "attempt")
	}
}

var statuses = []int{0, 200, 301, 400, 404, 429, 429, 429, 500, 502, 503, 503, 503, 504}

var secondsChoices = []string{"0", "1", "5", "120", "-1", "-5", "-9223372036854775808", "9223372036", "9223372037", "9223372036854775807", "9223372036854775808",
	"18446744073709551615", "4611686018427387904", "3600", "86400", "+7", "007", "1e3", "1.5", " 5", "5 ", "0x10"}

var garbageChoices = []string{"", "soon", "tomorrow", "Fri, 31 Feb 2050 99:99:99 GMT", "NaN", "∞", "-", "12abc", "2020-13-45T00:00:00Z", "\x00", "null"}

var layouts = []string{nethttp.TimeFormat, time.RFC1123, time.RFC1123Z, time.RFC3339, time.RFC850, time.ANSIC}

func genWait(t *rapid.T) WaitCase {
	c := WaitCase{Policy: rapid.SampledFrom([]string{"constant", "linear", "exponential", "factory"}).Draw(t, "policy")}
	a, b := genDur(t, "d1"), genDur(t, "d2")
	if a > b {
		a, b = b, a
	}
	if rapid.IntRange(0, 5).Draw(t, "equal") == 0 {
		b = a
	}
	c.MinNs, c.MaxNs = a, b
	c.Attempt = genAttempt(t)
	c.Honour = rapid.Bool().Draw(t, "honour")
	c.Status = rapid.SampledFrom(statuses).Draw(t, "status")
	if c.Status != 0 {
		c.HasHeader = rapid.IntRange(0, 3).Draw(t, "has-header") > 0
	}
	if c.HasHeader {
		c.HeaderIn = rapid.SampledFrom([]string{"seconds", "seconds", "date-past", "date-future", "garbage"}).Draw(t, "header-kind")
		switch c.HeaderIn {
		case "seconds":
			if rapid.Bool().Draw(t, "seconds-table") {
				c.Header = rapid.SampledFrom(secondsChoices).Draw(t, "seconds")
			} else {
				c.Header = fmt.Sprintf("%d", rapid.Int64().Draw(t, "seconds"))
			}
		case "date-past", "date-future":
			c.OffsetS = rapid.Int64Range(2, 400*24*3600).Draw(t, "offset")
			if c.HeaderIn == "date-past" {
				c.OffsetS = -c.OffsetS
			}
			c.Layout = rapid.SampledFrom(layouts).Draw(t, "layout")
		default:
			c.Header = rapid.SampledFrom(garbageChoices).Draw(t, "garbage")
		}
	}
	if c.Policy == "factory" {
		c.Policy = "factory:" + rapid.SampledFrom([]string{"nil", "disabled", "enabled", "enabled+backoff", "enabled+backoff+linear", "disabled+backoff", "enabled+linear-only"}).Draw(t, "flags")
	}
	return c
}

func (c WaitCase) nontrivial() bool {
	if c.HasHeader {
		return true
	}
	// (n+1)*min within 2^8 of overflow, or beyond
	p := new(big.Int).Mul(big.NewInt(int64(c.Attempt)+1), big.NewInt(c.MinNs))
	lim := new(big.Int).Rsh(big.NewInt(math.MaxInt64), 8)
	return p.Cmp(lim) > 0
}

// policyFor builds the policy under test and tells which documented policy it must be.
func policyFor(c WaitCase) (libhttp.IRetryWaitPolicy, string) {
	cfg := &libhttp.RetryPolicyConfiguration{RetryAfterDisabled: !c.Honour}
	switch c.Policy {
	case "constant":
		return libhttp.NewBasicRetryPolicy(cfg), "constant"
	case "linear":
		return libhttp.NewLinearBackoffPolicy(cfg), "linear"
	case "exponential":
		return libhttp.NewExponentialBackoffPolicy(cfg), "exponential"
	}
	switch c.Policy {
	case "factory:nil":
		return libhttp.BackOffPolicyFactory(nil), "constant-nohint"
	case "factory:disabled":
		return libhttp.BackOffPolicyFactory(cfg), "constant"
	case "factory:enabled":
		cfg.Enabled = true
		return libhttp.BackOffPolicyFactory(cfg), "constant"
	case "factory:enabled+backoff":
		cfg.Enabled, cfg.BackOffEnabled = true, true
		return libhttp.BackOffPolicyFactory(cfg), "exponential"
	case "factory:enabled+backoff+linear":
		cfg.Enabled, cfg.BackOffEnabled, cfg.LinearBackOffEnabled = true, true, true
		return libhttp.BackOffPolicyFactory(cfg), "linear"
	case "factory:disabled+backoff":
		cfg.BackOffEnabled = true
		return libhttp.BackOffPolicyFactory(cfg), "constant"
	default: // linear flag without the back-off flag: back-off is not enabled => constant
		cfg.Enabled, cfg.LinearBackOffEnabled = true, true
		return libhttp.BackOffPolicyFactory(cfg), "constant"
	}
}

const dateTolerance = 50 * time.Millisecond

func (c *WaitCase) response(now time.Time) (*nethttp.Response, time.Time) {
	if c.Status == 0 {
		return nil, time.Time{}
	}
	r := &nethttp.Response{StatusCode: c.Status, Header: nethttp.Header{}}
	var target time.Time
	if c.HasHeader {
		h := c.Header
		if c.HeaderIn == "date-past" || c.HeaderIn == "date-future" {
			target = now.Add(time.Duration(c.OffsetS) * time.Second).UTC().Truncate(time.Second)
			h = target.Format(c.Layout)
			c.Header = h
		}
		r.Header.Set("Retry-After", h)
	}
	return r, target
}

// parseSeconds is the reference reading of an integer Retry-After.
func parseSeconds(s string) (*big.Int, bool) {
	if s == "" {
		return nil, false
	}
	i := 0
	if s[0] == '+' || s[0] == '-' {
		i = 1
	}
	if i == len(s) {
		return nil, false
	}
	for _, ch := range s[i:] {
		if ch < '0' || ch > '9' {
			return nil, false
		}
	}
	v, ok := new(big.Int).SetString(s, 10)
	return v, ok
}

func checkWait(t ev.T, test string, c WaitCase) {
	pol, kind := policyFor(c)
	honour := c.Honour && kind != "constant-nohint"
	if kind == "constant-nohint" {
		kind = "constant"
	}
	min, max := time.Duration(c.MinNs), time.Duration(c.MaxNs)
	var got time.Duration
	now := time.Now()
	resp, target := c.response(now)
	ev.Guard(t, prop, test, c, func() { got = pol.Apply(min, max, c.Attempt, resp) })
	after := time.Now()
	// (0) never negative
	if got < 0 {
		ev.Fail(t, prop, test, c, "wait = %v (%d ns): negative", got, int64(got))
	}
	// does the hint apply?
	hint := honour && c.HasHeader && (c.Status == 429 || c.Status == 503)
	if hint {
		switch c.HeaderIn {
		case "seconds":
			if v, ok := parseSeconds(c.Header); ok && !v.IsInt64() && v.Sign() > 0 {
				// a number of seconds beyond 64 bits (the quantifier goes up to 2^63) is a delay all the same: saturated like
				// the largest representable ones
				if int64(got) < (math.MaxInt64/1_000_000_000)*1_000_000_000 {
					ev.Fail(t, prop, test, c, "Retry-After: %s s (beyond a 64-bit integer) on %d does not replace the wait: got %v, want the saturated maximum", c.Header, c.Status, got)
				}
				return
			}
			if v, ok := parseSeconds(c.Header); ok && v.IsInt64() {
				switch {
				case v.Sign() < 0:
					// a negative hint: unspecified which non-negative value replaces it
					return
				default:
					ns := new(big.Int).Mul(v, big.NewInt(1_000_000_000))
					if ns.IsInt64() {
						if int64(got) != ns.Int64() {
							ev.Fail(t, prop, test, c, "Retry-After: %s on %d must replace the wait by exactly %s s, got %v", c.Header, c.Status, v, got)
						}
					} else {
						// not representable: at least the largest representable whole number of seconds
						if int64(got) < (math.MaxInt64/1_000_000_000)*1_000_000_000 {
							ev.Fail(t, prop, test, c, "Retry-After: %s s is beyond time.Duration; wait %v (%d ns) is not saturated", c.Header, got, int64(got))
						}
					}
					return
				}
			}
			// not an int64 integer: treated as garbage below (date parsing fails too)
		case "date-future":
			lo := target.Sub(after) - dateTolerance
			hi := target.Sub(now) + dateTolerance
			if got < lo || got > hi {
				ev.Fail(t, prop, test, c, "Retry-After date %q (%v from now): wait %v outside [%v, %v]", c.Header, target.Sub(now), got, lo, hi)
			}
			return
		case "date-past":
			if got != 0 {
				ev.Fail(t, prop, test, c, "Retry-After date %q in the past: wait %v, want 0", c.Header, got)
			}
			return
		}
	}
	// no (usable) hint: the policy's own value
	n1 := big.NewInt(int64(c.Attempt) + 1)
	switch kind {
	case "constant":
		if got != min {
			ev.Fail(t, prop, test, c, "constant policy: wait %v, want min %v", got, min)
		}
	case "linear":
		lo := new(big.Int).Mul(n1, big.NewInt(c.MinNs))
		hi := new(big.Int).Mul(n1, big.NewInt(c.MaxNs))
		if lo.IsInt64() && hi.IsInt64() {
			if int64(got) < lo.Int64() || int64(got) > hi.Int64() {
				ev.Fail(t, prop, test, c, "linear policy: wait %d ns outside [(n+1)*min, (n+1)*max] = [%s, %s] for n=%d", int64(got), lo, hi, c.Attempt)
			}
		}
	case "exponential":
		// durations above 2^53 ns (104 days) are not exact in the float64 arithmetic of the policy: a rounding of
		// less than 1 us below min is tolerated there (the property speaks of waits "from 0 to hours")
		slack := time.Duration(0)
		if c.MinNs >= 1<<53 {
			slack = 1024
		}
		if got < min-slack || got > max {
			ev.Fail(t, prop, test, c, "exponential policy: wait %v outside [min %v, max %v] for n=%d", got, min, max, c.Attempt)
		}
		if c.Attempt > 0 {
			prev := pol.Apply(min, max, c.Attempt-1, resp)
			if prev > got {
				ev.Fail(t, prop, test, c, "exponential policy decreases: n=%d gives %v, n=%d gives %v", c.Attempt-1, prev, c.Attempt, got)
			}
		}
		// exact value where 2^n*min is representable and below max
		if c.Attempt < 62 {
			p := new(big.Int).Lsh(big.NewInt(c.MinNs), uint(c.Attempt))
			if p.IsInt64() && p.Int64() <= c.MaxNs && p.Int64() < 1<<53 {
				if int64(got) != p.Int64() {
					ev.Fail(t, prop, test, c, "exponential policy: wait %d ns, want 2^%d*min = %s", int64(got), c.Attempt, p)
				}
			}
		}
	}
	// a hint that must NOT apply (disabled, other status, garbage) leaves the value unchanged: compare with the
	// hint-free call for the deterministic policies
	if c.HasHeader && kind != "linear" {
		base := pol.Apply(min, max, c.Attempt, nil)
		if base != got {
			ev.Fail(t, prop, test, c, "Retry-After %q must not apply (honoured=%v status=%d) but the wait changed from %v to %v", c.Header, honour, c.Status, base, got)
		}
	}
}

func replayWait(t ev.T, raw json.RawMessage) {
	var c WaitCase
	if err := json.Unmarshal(raw, &c); err != nil {
		t.Fatalf("HARNESS: %v", err)
	}
	checkWait(t, "TestWaitPolicies", c)
}

func TestWaitPolicies(t *testing.T) {
	rapid.Check(t, func(rt *rapid.T) {
		c := genWait(rt)
		key, _ := json.Marshal(c)
		cl := "wait/" + c.Policy
		if c.HasHeader {
			cl += "/" + c.HeaderIn
		}
		ev.Case(string(key), c.nontrivial(), cl, c)
		checkWait(rt, "TestWaitPolicies", c)
	})
}

// TestWaitSweep enumerates attempt numbers densely for a table of (min,max) and the
// seconds table for the header: cheap, deterministic.
func TestWaitSweep(t *testing.T) {
	var n, nt int64
	for _, pol := range []string{"constant", "linear", "exponential"} {
		for _, mn := range durChoices {
			for _, mx := range durChoices {
				if mx < mn {
					continue
				}
				for _, a := range []int{0, 1, 2, 3, 7, 8, 30, 31, 32, 33, 61, 62, 63, 64, 65, 1000, 1 << 20, math.MaxInt32 - 1, math.MaxInt32} {
					c := WaitCase{Policy: pol, MinNs: mn, MaxNs: mx, Attempt: a, Honour: a%2 == 0}
					checkWait(t, "TestWaitPolicies", c)
					n++
					if c.nontrivial() {
						nt++
					}
				}
			}
		}
		for _, s := range secondsChoices {
			for _, st := range []int{429, 503, 500, 200} {
				for _, h := range []bool{true, false} {
					c := WaitCase{Policy: pol, MinNs: 1000, MaxNs: 5_000_000_000, Attempt: 3, Honour: h, Status: st, HasHeader: true, Header: s, HeaderIn: "seconds"}
					checkWait(t, "TestWaitPolicies", c)
					n++
					nt++
				}
			}
		}
	}
	ev.Bulk(n, nt, "wait/sweep")
}

func init() {
	ev.RegisterReplay("TestRetryLoop", replayLoop)
	ev.RegisterReplay("TestWaitPolicies", replayWait)
}

func TestReplay(t *testing.T)      { ev.RunReplay(t) }
func TestRegressions(t *testing.T) { ev.Regressions(t, prop) }
