package c14

import (
	"encoding/json"
	"fmt"
	"io"
	"net/http"
	"net/http/httptest"
	"sync/atomic"
	"testing"
	"time"

	"pgregory.net/rapid"

	libhttp "github.com/ARM-software/golang-utils/utils/http"
	"github.com/ARM-software/golang-utils/utils/retry"

	"verif/internal/ev"
)

// ClientCase: the retrying HTTP client against a local server that answers with a script of statuses. The attempt counter
// is the number of requests the server received.
type ClientCase struct {
	Enabled  bool   `json:"enabled"`
	RetryMax int    `json:"max_retry"`
	Policy   string `json:"policy"` // constant | exponential | linear
	Script   []int  `json:"statuses"` // status of the k-th request (the last one repeats)
	Method   string `json:"method"`   // get | head
}

func checkClient(t ev.T, test string, c ClientCase) {
	var received atomic.Int64
	srv := httptest.NewServer(http.HandlerFunc(func(w http.ResponseWriter, r *http.Request) {
		k := int(received.Add(1)) - 1
		if k >= len(c.Script) {
			k = len(c.Script) - 1
		}
		w.WriteHeader(c.Script[k])
		_, _ = io.WriteString(w, "x")
	}))
	defer srv.Close()
	cfg := libhttp.DefaultHTTPClientConfiguration()
	cfg.RetryPolicy = retry.RetryPolicyConfiguration{Enabled: c.Enabled, RetryMax: c.RetryMax, RetryAfterDisabled: true, RetryWaitMin: 50 * time.Microsecond, RetryWaitMax: 300 * time.Microsecond,
		BackOffEnabled: c.Policy != "constant", LinearBackOffEnabled: c.Policy == "linear"}
	client := libhttp.NewConfigurableRetryableClient(cfg)
	defer func() { _ = client.Close() }()
	var resp *http.Response
	var err error
	ev.Guard(t, prop, test, c, func() {
		if c.Method == "head" {
			resp, err = client.Head(srv.URL)
		} else {
			resp, err = client.Get(srv.URL)
		}
	})
	if resp != nil && resp.Body != nil {
		_, _ = io.Copy(io.Discard, resp.Body)
		_ = resp.Body.Close()
	}
	n := int(received.Load())
	// where the script first stops asking for a retry (anything but 429 and 5xx other than 501)
	firstFinal := -1
	for k, st := range c.Script {
		if !(st == 429 || (st >= 500 && st != 501)) {
			firstFinal = k
			break
		}
	}
	if n < 1 {
		ev.Fail(t, prop, test, c, "the server received no request at all (error %v)", err)
	}
	if !c.Enabled && n != 1 {
		ev.Fail(t, prop, test, c, "retries are disabled (max_retry %d is irrelevant then) but the server received %d requests", c.RetryMax, n)
	}
	if c.Enabled && n > c.RetryMax+1 {
		ev.Fail(t, prop, test, c, "the server received %d requests, more than one plus the %d retries configured", n, c.RetryMax)
	}
	if firstFinal >= 0 && n > firstFinal+1 {
		ev.Fail(t, prop, test, c, "request %d was answered with %d (nothing to retry) but the server received %d requests", firstFinal, c.Script[firstFinal], n)
	}
	if c.Enabled && firstFinal >= 0 && firstFinal <= c.RetryMax && n != firstFinal+1 {
		ev.Fail(t, prop, test, c, "the script answers request %d with %d, within the %d retries configured, but the server received %d requests", firstFinal, c.Script[firstFinal], c.RetryMax, n)
	}
	ev.Class(fmt.Sprintf("http-client/enabled=%v", c.Enabled))
}

func TestHTTPClient(t *testing.T) {
	rapid.Check(t, func(rt *rapid.T) {
		c := ClientCase{Enabled: rapid.IntRange(0, 3).Draw(rt, "enabled") > 0, RetryMax: rapid.IntRange(0, 5).Draw(rt, "max-retry"),
			Policy: rapid.SampledFrom([]string{"constant", "exponential", "linear"}).Draw(rt, "policy"), Method: rapid.SampledFrom([]string{"get", "get", "head"}).Draw(rt, "method")}
		c.Script = rapid.SliceOfN(rapid.SampledFrom([]int{503, 503, 429, 500, 502, 200, 404, 501}), 1, 7).Draw(rt, "statuses")
		key, _ := json.Marshal(c)
		ev.Case(string(key), len(c.Script) > 1 || c.RetryMax > 0, "http-client", c)
		checkClient(rt, "TestHTTPClient", c)
	})
}

func init() {
	ev.RegisterReplay("TestHTTPClient", func(t ev.T, raw json.RawMessage) {
		var c ClientCase
		if err := json.Unmarshal(raw, &c); err != nil {
			t.Fatalf("HARNESS: %v", err)
		}
		checkClient(t, "TestHTTPClient", c)
	})
}
