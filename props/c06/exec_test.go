// Package c06 decides C06: the filesystem API follows its documented semantics on every backend.
package c06

import (
	"context"
	"crypto/md5"
	"encoding/hex"
	"fmt"
	"path/filepath"
	"sort"
	"strings"

	"github.com/ARM-software/golang-utils/utils/commonerrors"
	"github.com/ARM-software/golang-utils/utils/filesystem"

	"verif/internal/treegen"
)

// Call is one API call of a program. Paths are spelled relative to the sandbox root.
type Call struct {
	Op   string          `json:"op"`
	A    string          `json:"a,omitempty"`
	B    string          `json:"b,omitempty"`
	Data treegen.Content `json:"data,omitempty"`
	Flag bool            `json:"flag,omitempty"` // LsRecursive: include directories
	Ext  string          `json:"ext,omitempty"`  // FindAll extension / Glob pattern suffix
}

func (c Call) String() string {
	s := c.Op + "(" + fmt.Sprintf("%q", c.A)
	if c.B != "" || isTwoPath(c.Op) {
		s += fmt.Sprintf(", %q", c.B)
	}
	if c.Op == "WriteFile" {
		s += fmt.Sprintf(", %d bytes", c.Data.Len)
	}
	if c.Op == "LsRecursive" {
		s += fmt.Sprintf(", dirs=%v", c.Flag)
	}
	if c.Ext != "" {
		s += ", " + c.Ext
	}
	return s + ")"
}

func isTwoPath(op string) bool {
	switch op {
	case "Copy", "CopyToFile", "CopyToDirectory", "Move", "ConvertToRelativePath", "ConvertToAbsolutePath":
		return true
	}
	return false
}

// Outcome is the canonical observable result of a call.
type Outcome struct {
	Val  string `json:"val"`
	Kind string `json:"err_kind"` // "" = nil error
}

func (o Outcome) String() string {
	if o.Kind != "" {
		return "error:" + o.Kind
	}
	return "ok:" + o.Val
}

var kindNames = []struct {
	n string
	e error
}{
	{"not-found", commonerrors.ErrNotFound}, {"invalid", commonerrors.ErrInvalid}, {"undefined", commonerrors.ErrUndefined}, {"exists", commonerrors.ErrExists},
	{"empty", commonerrors.ErrEmpty}, {"conflict", commonerrors.ErrConflict}, {"cancelled", commonerrors.ErrCancelled}, {"timeout", commonerrors.ErrTimeout},
	{"too-large", commonerrors.ErrTooLarge}, {"unexpected", commonerrors.ErrUnexpected}, {"unsupported", commonerrors.ErrUnsupported}, {"eof", commonerrors.ErrEOF},
	{"not-implemented", commonerrors.ErrNotImplemented}, {"condition", commonerrors.ErrCondition}, {"unknown", commonerrors.ErrUnknown}, {"forbidden", commonerrors.ErrForbidden},
	{"out-of-range", commonerrors.ErrOutOfRange}, {"malicious", commonerrors.ErrMalicious},
}

func kindOf(err error) string {
	if err == nil {
		return ""
	}
	for _, k := range kindNames {
		if commonerrors.Any(err, k.e) {
			return k.n
		}
	}
	return "other"
}

// spell turns a path spelled relative to the sandbox into the path handed to the API.
func spell(root, p string) string {
	if p == "" {
		return root
	}
	trailing := strings.HasSuffix(p, "/") && p != "/"
	out := root + "/" + p // keep the spelling (doubled separators, dots) as generated
	_ = trailing
	return out
}

func relTo(root, p string) string {
	p = filepath.Clean(p)
	if p == root {
		return "."
	}
	if strings.HasPrefix(p, root+"/") {
		return p[len(root)+1:]
	}
	return "OUTSIDE:" + p
}

// uncleanPaths counts the full paths returned by listing calls that are not in clean form (the walk normalises its root
// explicitly: a path handed back is meant to be usable as a key)
var uncleanPaths []string

func canonList(root string, l []string, names bool) string {
	out := make([]string, 0, len(l))
	for _, x := range l {
		if names {
			out = append(out, x)
		} else {
			if filepath.Clean(x) != x {
				uncleanPaths = append(uncleanPaths, x)
			}
			out = append(out, relTo(root, x))
		}
	}
	sort.Strings(out)
	return "[" + strings.Join(out, " ") + "]"
}

// run executes one call on a backend and canonicalises what it returns.
func run(fs filesystem.FS, root string, c Call) (o Outcome) {
	ctx := context.Background()
	a, b := spell(root, c.A), spell(root, c.B)
	var err error
	switch c.Op {
	case "Exists":
		o.Val = fmt.Sprint(fs.Exists(a))
	case "IsFile":
		var r bool
		r, err = fs.IsFile(a)
		o.Val = fmt.Sprint(r)
	case "IsDir":
		var r bool
		r, err = fs.IsDir(a)
		o.Val = fmt.Sprint(r)
	case "IsEmpty":
		var r bool
		r, err = fs.IsEmpty(a)
		o.Val = fmt.Sprint(r)
	case "MkDir":
		err = fs.MkDir(a)
	case "WriteFile":
		err = fs.WriteFile(a, c.Data.Bytes(), 0o644)
	case "ReadFile":
		var d []byte
		d, err = fs.ReadFile(a)
		s := md5.Sum(d)
		o.Val = fmt.Sprintf("%d:%s", len(d), hex.EncodeToString(s[:4]))
	case "Touch":
		err = fs.Touch(a)
	case "Ls":
		var l []string
		l, err = fs.Ls(a)
		o.Val = canonList(root, l, true)
	case "LsRecursive":
		var l []string
		l, err = fs.LsRecursive(ctx, a, c.Flag)
		o.Val = canonList(root, l, false)
	case "ListDirTree":
		var l []string
		err = fs.ListDirTree(a, &l)
		o.Val = canonList(root, l, false)
	case "SubDirectories":
		var l []string
		l, err = fs.SubDirectories(a)
		o.Val = canonList(root, l, true)
	case "FindAll":
		var l []string
		l, err = fs.FindAll(a, c.Ext)
		o.Val = canonList(root, l, false)
	case "Glob":
		var l []string
		l, err = fs.Glob(a + "/" + c.Ext)
		o.Val = canonList(root, l, false)
	case "GetFileSize":
		var n int64
		n, err = fs.GetFileSize(a)
		o.Val = fmt.Sprint(n)
	case "FileHash":
		o.Val, err = fs.FileHash("MD5", a)
	case "Rm":
		err = fs.Rm(a)
	case "CleanDir":
		err = fs.CleanDir(a)
	case "Copy":
		err = fs.Copy(a, b)
	case "CopyToFile":
		err = fs.CopyToFile(a, b)
	case "CopyToDirectory":
		err = fs.CopyToDirectory(a, b)
	case "Move":
		err = fs.Move(a, b)
	case "ConvertToRelativePath":
		var l []string
		l, err = fs.ConvertToRelativePath(a, b)
		o.Val = "[" + strings.Join(l, " ") + "]"
	case "ConvertToAbsolutePath":
		var l []string
		l, err = fs.ConvertToAbsolutePath(a, c.B)
		o.Val = canonList(root, l, false)
	default:
		panic("unknown op " + c.Op)
	}
	o.Kind = kindOf(err)
	if err != nil {
		o.Val = ""
	}
	return
}
