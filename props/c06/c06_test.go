package c06

import (
	"crypto/md5"
	"encoding/hex"
	"encoding/json"
	"fmt"
	"os"
	"path"
	"path/filepath"
	"sort"
	"strings"
	"syscall"
	"testing"

	"github.com/spf13/afero"
	"pgregory.net/rapid"

	"verif/internal/ev"
	"verif/internal/fsbox"
	"verif/internal/fsx"
	"verif/internal/treegen"
)

const prop = "C06"

func TestMain(m *testing.M) { ev.Main(m) }

type Program struct {
	Calls []Call `json:"calls"`
	Mode  string `json:"mode"` // A (conflict-free, model) | B (anything) | D (backends must agree)
	// NoR30 disables the by-construction exclusion of known finding C06-R30 (only set by its replay)
	NoR30 bool `json:"no_r30_exclusion,omitempty"`
	// NoR43 disables the classification of known finding C06-R43 (only set by its replay)
	NoR43 bool `json:"no_r43_classification,omitempty"`
	// RenameFails makes every backend rename fail with EXDEV ("invalid cross-device link", as for Docker volumes) so that
	// Move takes its copy-and-remove path
	RenameFails bool `json:"rename_fails_exdev,omitempty"`
}

// ("ab" begins with "a": a sibling whose name extends another one is neither that item nor inside it)
var components = []string{"a", "b", "c.txt", ".h", "d.txt", "ab"}

func genPath(t *rapid.T, label string, m *Model) string {
	// construction: half of the time an existing entry (or a child-to-be of an existing directory)
	if m != nil && rapid.Bool().Draw(t, label+"-existing") {
		var keys []string
		for k := range m.nodes {
			keys = append(keys, k)
		}
		sort.Strings(keys)
		k := keys[rapid.IntRange(0, len(keys)-1).Draw(t, label+"-pick")]
		if k == "." {
			k = ""
		}
		if rapid.IntRange(0, 2).Draw(t, label+"-child") == 0 {
			return path.Join(k, rapid.SampledFrom(components).Draw(t, label+"-comp"))
		}
		if k == "" {
			return rapid.SampledFrom(components).Draw(t, label+"-comp")
		}
		return k
	}
	n := rapid.IntRange(1, 3).Draw(t, label+"-depth")
	var parts []string
	for i := 0; i < n; i++ {
		parts = append(parts, rapid.SampledFrom(components).Draw(t, fmt.Sprintf("%s-c%d", label, i)))
	}
	return strings.Join(parts, "/")
}

var opsA = []string{"Exists", "IsFile", "IsDir", "IsEmpty", "MkDir", "MkDir", "WriteFile", "WriteFile", "WriteFile", "ReadFile", "Touch", "Ls", "LsRecursive", "ListDirTree",
	"SubDirectories", "FindAll", "Glob", "GetFileSize", "FileHash", "Rm", "CleanDir", "Copy", "Copy", "Copy", "CopyToFile", "CopyToDirectory", "Move", "Move"}

func genCall(t *rapid.T, label string, m *Model) Call {
	c := Call{Op: rapid.SampledFrom(opsA).Draw(t, label+"-op")}
	c.A = genPath(t, label+"-a", m)
	if isTwoPath(c.Op) {
		c.B = genPath(t, label+"-b", m)
		if c.A != "" && rapid.IntRange(0, 7).Draw(t, label+"-extends") == 0 {
			c.B = c.A + "b" // the destination's name extends the source's
		}
		if rapid.IntRange(0, 4).Draw(t, label+"-trail") == 0 {
			c.B += "/"
		}
	}
	switch c.Op {
	case "WriteFile":
		c.Data = treegen.Content{Len: rapid.IntRange(1, 40).Draw(t, label+"-len"), Kind: 1, Seed: rapid.Uint64Range(0, 50).Draw(t, label+"-seed")}
	case "LsRecursive":
		c.Flag = rapid.Bool().Draw(t, label+"-dirs")
	case "FindAll":
		c.Ext = "txt"
	case "Glob":
		c.Ext = "*"
	case "Touch":
		if rapid.IntRange(0, 5).Draw(t, label+"-trail") == 0 {
			c.A += "/"
		}
	}
	return c
}

// genProgramA builds a conflict-free program by construction against the model, and returns the
// expected outcome of every call and the expected tree after every call.
func genProgramA(t *rapid.T) (Program, []Outcome, []map[string]string) {
	m := NewModel()
	var p Program
	p.Mode = "A"
	var outs []Outcome
	var snaps []map[string]string
	n := rapid.IntRange(1, 40).Draw(t, "calls")
	for i := 0; i < n; i++ {
		var accepted *Call
		var res Result
		for try := 0; try < 6 && accepted == nil; try++ {
			c := genCall(t, fmt.Sprintf("c%d-%d", i, try), m)
			trial := m.clone()
			r := trial.Apply(c)
			switch {
			case r.Known != "":
				ev.Exclude(r.Known)
			case r.Conflict:
				ev.Class("redrawn: kind conflict or outside mode A")
			default:
				accepted, res, m = &c, r, trial
			}
		}
		if accepted == nil {
			c := Call{Op: "Exists", A: "a"}
			res = m.Apply(c)
			accepted = &c
		}
		p.Calls = append(p.Calls, *accepted)
		outs = append(outs, res.Out)
		snaps = append(snaps, m.Snapshot())
	}
	return p, outs, snaps
}

// replayModel recomputes expectations for a stored program (replays do not store them).
func replayModel(p Program) ([]Outcome, []map[string]string, error) {
	m := NewModel()
	var outs []Outcome
	var snaps []map[string]string
	for i, c := range p.Calls {
		r := m.Apply(c)
		if r.Conflict || r.Known != "" {
			return nil, nil, fmt.Errorf("call %d %s is outside mode A (conflict=%v known=%q)", i, c, r.Conflict, r.Known)
		}
		outs = append(outs, r.Out)
		snaps = append(snaps, m.Snapshot())
	}
	return outs, snaps, nil
}

func snapBackend(b *fsbox.Box) map[string]string {
	out := map[string]string{}
	s, _ := treegen.Snap(b.Raw, b.Root)
	for rel, e := range s {
		switch e.Kind {
		case "dir":
			out[rel] = "dir"
		case "file":
			d, _ := afero.ReadFile(b.Raw, filepath.Join(b.Root, filepath.FromSlash(rel)))
			h := md5.Sum(d)
			out[rel] = fmt.Sprintf("file:%d:%s", len(d), hex.EncodeToString(h[:4]))
		default:
			out[rel] = e.Kind
		}
	}
	return out
}

func diffSnap(want, got map[string]string) []string {
	var d []string
	for k, w := range want {
		if g, ok := got[k]; !ok {
			d = append(d, "missing "+k+" ("+w+")")
		} else if g != w {
			d = append(d, fmt.Sprintf("%s: want %s got %s", k, w, g))
		}
	}
	for k, g := range got {
		if _, ok := want[k]; !ok {
			d = append(d, "unexpected "+k+" ("+g+")")
		}
	}
	sort.Strings(d)
	return d
}

func checkProgramA(t ev.T, test string, p Program, outs []Outcome, snaps []map[string]string) {
	for _, kind := range []string{"mem", "os"} {
		box := fsbox.New(kind)
		if p.RenameFails {
			box.Backend.FaultAt = func(op *fsx.Op, _ int64) *fsx.Fault {
				if op.Kind == "rename" {
					return &fsx.Fault{Kind: "error", Err: &os.LinkError{Op: "rename", Old: op.Path, New: op.Path2, Err: syscall.EXDEV}}
				}
				return nil
			}
		}
		func() {
			defer box.Close()
			for i, c := range p.Calls {
				var got Outcome
				uncleanPaths = nil
				ev.Guard(t, prop, test, p, func() { got = run(box.FS, box.Root, c) })
				if len(uncleanPaths) > 0 {
					ev.Fail(t, prop, test, p, "%s backend, call %d %s returned a path that is not in clean form: %q", kind, i, c, uncleanPaths[0])
				}
				if got != outs[i] {
					ev.Fail(t, prop, test, p, "%s backend, call %d %s: returned %s, reference model says %s", kind, i, c, got, outs[i])
				}
				if d := diffSnap(snaps[i], snapBackend(box)); len(d) > 0 {
					ev.Fail(t, prop, test, p, "%s backend, after call %d %s the tree differs from the reference model: %v", kind, i, c, d)
				}
				if h := box.Backend.OpenHandles(); len(h) > 0 {
					ev.Fail(t, prop, test, p, "%s backend, call %d %s left file handles open: %v", kind, i, c, h)
				}
			}
		}()
	}
}

func (p Program) nontrivial() bool {
	kinds := map[string]bool{}
	for _, c := range p.Calls {
		kinds[c.Op] = true
		if c.Op == "Copy" || c.Op == "Move" || c.Op == "CopyToDirectory" || c.Op == "CopyToFile" {
			return true
		}
	}
	return len(kinds) >= 3
}

func TestModelA(t *testing.T) {
	rapid.Check(t, func(rt *rapid.T) {
		p, outs, snaps := genProgramA(rt)
		p.RenameFails = rapid.IntRange(0, 3).Draw(rt, "rename-fails") == 0
		key, _ := json.Marshal(p)
		cl := "modeA"
		if p.RenameFails {
			cl = "modeA/rename-fails-exdev"
		}
		ev.Case(string(key), p.nontrivial(), cl, p)
		for _, c := range p.Calls {
			ev.Class("A:" + c.Op)
		}
		checkProgramA(rt, "TestModelA", p, outs, snaps)
	})
}

func replayA(t ev.T, raw json.RawMessage) {
	var p Program
	if err := json.Unmarshal(raw, &p); err != nil {
		t.Fatalf("HARNESS: %v", err)
	}
	switch p.Mode {
	case "B":
		checkProgramB(t, "TestAnythingB", p)
	case "D":
		checkBackendsAgree(t, "TestBackendsAgree", p)
	default:
		outs, snaps, err := replayModel(p)
		if err != nil {
			t.Fatalf("HARNESS: %v", err)
		}
		checkProgramA(t, "TestModelA", p, outs, snaps)
	}
}

func init() {
	ev.RegisterReplay("TestModelA", replayA)
	ev.RegisterReplay("TestAnythingB", replayA)
	ev.RegisterReplay("TestBackendsAgree", replayA)
}

func TestReplay(t *testing.T)      { ev.RunReplay(t) }
func TestRegressions(t *testing.T) { ev.Regressions(t, prop) }

// checkBackendsAgree runs a program on both backends and requires identical outcomes and trees
// (used by the replays of the known findings where the backends differ).
func checkBackendsAgree(t ev.T, test string, p Program) {
	mem, osb := fsbox.New("mem"), fsbox.New("os")
	defer mem.Close()
	defer osb.Close()
	for i, c := range p.Calls {
		a, b := run(mem.FS, mem.Root, c), run(osb.FS, osb.Root, c)
		if a != b {
			ev.Fail(t, prop, test, p, "call %d %s: in-memory backend returned %s, OS backend %s", i, c, a, b)
		}
		if d := diffSnap(snapBackend(mem), snapBackend(osb)); len(d) > 0 {
			ev.Fail(t, prop, test, p, "after call %d %s the trees of the two backends differ (in-memory is 'want'): %v", i, c, d)
		}
	}
}

// ---- Mode B: anything ---------------------------------------------------------------------------------------

// ("x/../p" is not used: mkdir -p semantics legitimately create the spelled component x first)
var spellings = []string{"%s", "%s", "%s", "%s/", "%s/.", "./%s", "%s//", "././%s"}

func genPathB(t *rapid.T, label string) string {
	if rapid.IntRange(0, 19).Draw(t, label+"-empty") == 0 {
		return rapid.SampledFrom([]string{"", ".", "/", "..", "a/..", " "}).Draw(t, label+"-odd")
	}
	n := rapid.IntRange(1, 3).Draw(t, label+"-depth")
	var parts []string
	for i := 0; i < n; i++ {
		parts = append(parts, rapid.SampledFrom([]string{"a", "a", "b", "b", "c.txt", "c.txt", "ab"}).Draw(t, fmt.Sprintf("%s-c%d", label, i)))
	}
	sep := rapid.SampledFrom([]string{"/", "/", "/", "//", "/./"}).Draw(t, label+"-sep")
	return fmt.Sprintf(rapid.SampledFrom(spellings).Draw(t, label+"-spelling"), strings.Join(parts, sep))
}

var opsB = []string{"MkDir", "WriteFile", "WriteFile", "ReadFile", "Touch", "Ls", "LsRecursive", "ListDirTree", "SubDirectories", "FindAll", "Glob", "GetFileSize", "FileHash", "Rm",
	"CleanDir", "Copy", "Copy", "Copy", "Copy", "CopyToFile", "CopyToFile", "CopyToDirectory", "CopyToDirectory", "Move", "Move", "Exists", "IsEmpty", "IsDir"}

func genProgramB(t *rapid.T) Program {
	p := Program{Mode: "B"}
	n := rapid.IntRange(1, 40).Draw(t, "calls")
	for i := 0; i < n; i++ {
		l := fmt.Sprintf("c%d", i)
		c := Call{Op: rapid.SampledFrom(opsB).Draw(t, l+"-op"), A: genPathB(t, l+"-a")}
		if isTwoPath(c.Op) {
			switch rapid.IntRange(0, 6).Draw(t, l+"-rel") {
			case 6:
				// a sibling whose name begins with the name of the source (a -> ab): neither the same item nor inside it
				if a := strings.TrimRight(c.A, "/."); a != "" && !strings.HasSuffix(a, "..") {
					c.B = a + "b"
				} else {
					c.B = genPathB(t, l+"-b")
				}
			case 0:
				c.B = c.A // same
			case 1:
				c.B = c.A + "/" + rapid.SampledFrom([]string{"a", "b"}).Draw(t, l+"-inside") // dest inside source
			case 2:
				c.B = path.Dir(strings.TrimSuffix(c.A, "/")) // dest = parent of source
			default:
				c.B = genPathB(t, l+"-b")
			}
		}
		if c.Op == "WriteFile" {
			c.Data = treegen.Content{Len: rapid.IntRange(0, 30).Draw(t, l+"-len"), Kind: 1, Seed: uint64(i)}
		}
		c.Flag = true
		c.Ext = "txt"
		if c.Op == "Glob" {
			c.Ext = "*"
		}
		p.Calls = append(p.Calls, c)
	}
	return p
}

func resolveB(p string) string {
	// lexical resolution below the sandbox; "ESC" if it leaves it
	out := []string{}
	for _, c := range strings.Split(p, "/") {
		switch c {
		case "", ".":
		case "..":
			if len(out) == 0 {
				return "ESC"
			}
			out = out[:len(out)-1]
		default:
			out = append(out, c)
		}
	}
	if len(out) == 0 {
		return "."
	}
	return strings.Join(out, "/")
}

func inRegion(rel string, regions []string) bool {
	for _, r := range regions {
		if r == "." || rel == r || strings.HasPrefix(rel, r+"/") {
			return true
		}
	}
	return false
}

func isAncestor(rel string, regions []string) bool {
	for _, r := range regions {
		if strings.HasPrefix(r, rel+"/") {
			return true
		}
	}
	return false
}

const workBound = 20000

func checkProgramB(t ev.T, test string, p Program) {
	for _, kind := range []string{"mem", "os"} {
		box := fsbox.New(kind)
		func() {
			defer box.Close()
			// canaries outside the sandbox proper: programs work below Root/w
			root := box.Path("w")
			_ = box.Raw.MkdirAll(root, 0o755)
			_ = afero.WriteFile(box.Raw, box.Path("canary.txt"), []byte("canary"), 0o644)
			for i, c := range p.Calls {
				ra, rb := resolveB(c.A), resolveB(c.B)
				if ra == "ESC" || (isTwoPath(c.Op) && rb == "ESC") {
					continue // paths leaving the sandbox are not part of the programs
				}
				before := snapBackend(box)
				// known finding C06-R22: Move onto an existing directory. On the in-memory backend afero's Rename overwrites
				// the directory (moving an entry onto one of its own ancestors even crashes the process with "sync: RUnlock of
				// unlocked RWMutex"); such calls are not issued on that backend.
				if kind == "mem" && c.Op == "Move" && before[path.Clean("w/"+rb)] == "dir" && path.Dir(path.Clean("w/"+ra)) != path.Clean("w/"+rb) {
					ev.Exclude("C06-R22 move onto an existing directory (in-memory backend)")
					continue
				}
				if os.Getenv("C06_TRACE") != "" {
					fmt.Fprintf(os.Stderr, "TRACE %s %d %s tree=%v\n", kind, i, c, before)
				}
				box.Backend.StartBudget(workBound)
				uncleanPaths = nil
				ev.Guard(t, prop, test, p, func() { _ = run(box.FS, root, c) })
				if len(uncleanPaths) > 0 {
					ev.Fail(t, prop, test, p, "%s backend, call %d %s returned a path that is not in clean form: %q", kind, i, c, uncleanPaths[0])
				}
				// (i) it terminates, with a bounded amount of work
				if box.Backend.Overran() {
					ev.Fail(t, prop, test, p, "%s backend, call %d %s: more than %d backend operations on a tree of %d entries (unbounded work)", kind, i, c, workBound, len(before))
				}
				box.Backend.StartBudget(0)
				// (ii) no handle left open
				if h := box.Backend.OpenHandles(); len(h) > 0 {
					ev.Fail(t, prop, test, p, "%s backend, call %d %s left file handles open: %v", kind, i, c, h)
				}
				after := snapBackend(box)
				// known finding C06-R30: the in-memory backend (afero MemMapFs) does not enforce kinds: creating a directory over
				// (or below) a regular file, or a file over a directory, silently replaces the existing entry. Signature: in-memory
				// backend and some entry changed kind during the call. Such calls keep checks (i) and (ii) only.
				if kind == "mem" {
					flipped := false
					for rel, was := range before {
						if now, ok := after[rel]; ok && (was == "dir") != (now == "dir") {
							flipped = true
						}
					}
					if flipped && !p.NoR30 {
						// the in-memory tree may be inconsistent from here on (afero panics on such states): the rest of the
						// program is not run on this backend
						ev.Exclude("C06-R30 in-memory backend: an entry was replaced by one of the other kind")
						break
					}
				}
				// (iii) nothing but the destination (and, for move / rm / clean, the source) is altered or removed
				var regions []string
				switch c.Op {
				case "Copy", "CopyToFile", "CopyToDirectory":
					regions = []string{"w/" + rb}
				case "Move":
					regions = []string{"w/" + ra, "w/" + rb}
				case "ConvertToRelativePath", "ConvertToAbsolutePath":
				default:
					regions = []string{"w/" + ra}
				}
				for i := range regions {
					regions[i] = path.Clean(regions[i])
				}
				for rel, was := range before {
					now, still := after[rel]
					if still && now == was {
						continue
					}
					if inRegion(rel, regions) {
						// (iv) a copy never changes its source, also when source and destination overlap
						if strings.HasPrefix(c.Op, "Copy") {
							src := path.Clean("w/" + ra)
							if rel == src || strings.HasPrefix(rel, src+"/") {
								// known finding C06-R43: the contents of a directory x (source spelled "x/.") copied into the parent
								// of x while x has an entry of its own name: that entry's destination is x itself, the merge
								// writes into the source
								if _, inner := before[src+"/"+path.Base(src)]; !p.NoR43 && path.Base(c.A) == "." && path.Clean("w/"+rb) == path.Dir(src) && inner {
									ev.Exclude("C06-R43 contents of x copied into the parent of x while x/x exists")
									continue
								}
								ev.Fail(t, prop, test, p, "%s backend, call %d %s changed its source: %q was %s, now %s", kind, i, c, rel, was, orGone(now, still))
							}
						}
						continue
					}
					ev.Fail(t, prop, test, p, "%s backend, call %d %s altered %q (was %s, now %s), which is neither its destination nor below it", kind, i, c, rel, was, orGone(now, still))
				}
				for rel, now := range after {
					if _, was := before[rel]; was {
						continue
					}
					if inRegion(rel, regions) || (now == "dir" && isAncestor(rel, regions)) {
						continue
					}
					// mkdir -p semantics create every component as spelled ("a/../b" creates a first)
					if now == "dir" && (spelledPrefix(rel, c.A) || (isTwoPath(c.Op) && spelledPrefix(rel, c.B))) {
						continue
					}
					ev.Fail(t, prop, test, p, "%s backend, call %d %s created %q (%s) outside its destination", kind, i, c, rel, now)
				}
			}
		}()
	}
}

// spelledPrefix reports whether rel (below w/) is the clean form of a literal prefix of the spelled path.
func spelledPrefix(rel, spelled string) bool {
	parts := strings.Split(spelled, "/")
	for i := 1; i <= len(parts); i++ {
		if path.Clean("w/"+strings.Join(parts[:i], "/")) == rel {
			return true
		}
	}
	return false
}

func orGone(now string, still bool) string {
	if !still {
		return "gone"
	}
	return now
}

func TestAnythingB(t *testing.T) {
	rapid.Check(t, func(rt *rapid.T) {
		p := genProgramB(rt)
		key, _ := json.Marshal(p)
		nt := false
		for _, c := range p.Calls {
			if isTwoPath(c.Op) {
				nt = true
			}
			ev.Class("B:" + c.Op)
		}
		ev.Case(string(key), nt, "modeB", p)
		checkProgramB(rt, "TestAnythingB", p)
	})
}

var _ = os.ErrNotExist
