package c06

import (
	"crypto/md5"
	"encoding/hex"
	"fmt"
	"path"
	"sort"
	"strings"
)

// Model is the small reference model of the documented semantics (mkdir -p, cp -r, mv, rm -rf,
// ls, touch). Paths are clean, slash separated and relative to the sandbox root ("." is the root).
type Model struct {
	nodes map[string]*mnode
}

type mnode struct {
	dir  bool
	data []byte
}

func NewModel() *Model { return &Model{nodes: map[string]*mnode{".": {dir: true}}} }

func (m *Model) clone() *Model {
	c := &Model{nodes: map[string]*mnode{}}
	for k, v := range m.nodes {
		n := *v
		c.nodes[k] = &n
	}
	return c
}

func cleanRel(p string) string {
	if p == "" {
		return "."
	}
	return path.Clean(p)
}

func (m *Model) exists(p string) bool { _, ok := m.nodes[p]; return ok }
func (m *Model) isDir(p string) bool  { n, ok := m.nodes[p]; return ok && n.dir }
func (m *Model) isFile(p string) bool { n, ok := m.nodes[p]; return ok && !n.dir }

func parentOf(p string) string { return path.Dir(p) }

func under(p, base string) bool {
	if base == "." {
		return p != "."
	}
	return strings.HasPrefix(p, base+"/")
}

func (m *Model) children(p string) []string {
	var out []string
	for k := range m.nodes {
		if k != "." && parentOf(k) == p {
			out = append(out, path.Base(k))
		}
	}
	sort.Strings(out)
	return out
}

func (m *Model) descendants(p string) []string {
	var out []string
	for k := range m.nodes {
		if under(k, p) {
			out = append(out, k)
		}
	}
	sort.Strings(out)
	return out
}

// fileOnPath reports whether p or one of its proper prefixes is a file (a kind conflict for mkdir -p).
func (m *Model) fileOnPath(p string, includeSelf bool) bool {
	if includeSelf && m.isFile(p) {
		return true
	}
	for d := parentOf(p); d != "." && d != "/"; d = parentOf(d) {
		if m.isFile(d) {
			return true
		}
	}
	return false
}

func (m *Model) mkdirAll(p string) {
	for d := p; d != "." && d != "/"; d = parentOf(d) {
		if !m.exists(d) {
			m.nodes[d] = &mnode{dir: true}
		}
	}
}

func (m *Model) rm(p string) {
	for _, d := range m.descendants(p) {
		delete(m.nodes, d)
	}
	if p != "." {
		delete(m.nodes, p)
	}
}

func list(l []string) string { sort.Strings(l); return "[" + strings.Join(l, " ") + "]" }

// Result of applying a call to the model.
type Result struct {
	Out      Outcome
	Conflict bool   // the call needs a file where a directory is (or the reverse), or is otherwise outside Mode A
	Known    string // the call falls into the signature of a listed known finding (excluded from Mode A)
}

func ok(v string) Result      { return Result{Out: Outcome{Val: v}} }
func fail(kind string) Result { return Result{Out: Outcome{Kind: kind}} }

var conflict = Result{Conflict: true}

// Apply executes the call on the model (mutating it) and returns the documented outcome.
func (m *Model) Apply(c Call) Result {
	a, b := cleanRel(c.A), cleanRel(c.B)
	trailingB := strings.HasSuffix(c.B, "/")
	// a trailing separator asks for a directory: on a file it is a kind conflict
	if (strings.HasSuffix(c.A, "/") && m.isFile(a)) || (trailingB && m.isFile(b)) {
		return conflict
	}
	// a file used as a directory on the way to the target is a kind conflict as well
	if m.fileOnPath(a, false) || (isTwoPath(c.Op) && m.fileOnPath(b, false)) {
		return conflict
	}
	switch c.Op {
	case "Exists":
		return ok(fmt.Sprint(m.exists(a)))
	case "IsFile":
		return ok(fmt.Sprint(m.isFile(a)))
	case "IsDir":
		if !m.exists(a) {
			return fail("not-found")
		}
		return ok(fmt.Sprint(m.isDir(a)))
	case "IsEmpty":
		switch {
		case !m.exists(a):
			return ok("true")
		case m.isFile(a):
			return ok(fmt.Sprint(len(m.nodes[a].data) == 0))
		}
		return ok(fmt.Sprint(len(m.children(a)) == 0))
	case "MkDir":
		if m.fileOnPath(a, true) {
			return conflict
		}
		m.mkdirAll(a)
		return ok("")
	case "WriteFile":
		if m.isDir(a) || m.fileOnPath(a, false) {
			return conflict
		}
		if !m.isDir(parentOf(a)) {
			return Result{Known: "C06-R23 create below a missing parent (backends differ)"}
		}
		if c.Data.Len == 0 {
			return conflict // documented nowhere: writing no bytes reports 'empty'; not part of Mode A
		}
		m.nodes[a] = &mnode{data: c.Data.Bytes()}
		return ok("")
	case "Touch":
		if m.fileOnPath(a, false) {
			return conflict
		}
		if m.exists(a) {
			return ok("")
		}
		if !m.isDir(parentOf(a)) {
			return Result{Known: "C06-R23 create below a missing parent (backends differ)"}
		}
		if strings.HasSuffix(c.A, "/") {
			m.mkdirAll(a)
			return ok("")
		}
		m.nodes[a] = &mnode{}
		return ok("")
	case "ReadFile":
		switch {
		case m.isDir(a):
			return conflict
		case !m.exists(a):
			return fail("not-found")
		case len(m.nodes[a].data) == 0:
			return fail("empty")
		}
		d := m.nodes[a].data
		s := md5.Sum(d)
		return ok(fmt.Sprintf("%d:%s", len(d), hex.EncodeToString(s[:4])))
	case "Ls":
		if !m.isDir(a) {
			if m.isFile(a) {
				return conflict
			}
			return fail("invalid")
		}
		return ok(list(m.children(a)))
	case "LsRecursive":
		switch {
		case !m.exists(a):
			return fail("not-found")
		case m.isFile(a):
			return ok(list([]string{a}))
		}
		var out []string
		if c.Flag {
			out = append(out, a)
		}
		for _, d := range m.descendants(a) {
			if c.Flag || !m.nodes[d].dir {
				out = append(out, d)
			}
		}
		return ok(list(out))
	case "ListDirTree":
		if !m.isDir(a) {
			if m.isFile(a) {
				return conflict
			}
			return fail("invalid")
		}
		return ok(list(m.descendants(a)))
	case "SubDirectories":
		switch {
		case !m.exists(a):
			return fail("not-found")
		case m.isFile(a):
			return conflict
		}
		var out []string
		for _, ch := range m.children(a) {
			if m.isDir(path.Join(a, ch)) && !strings.HasPrefix(ch, ".") {
				out = append(out, ch)
			}
		}
		return ok(list(out))
	case "FindAll":
		if m.isFile(a) {
			return conflict
		}
		var out []string
		for _, d := range m.descendants(a) {
			if strings.HasSuffix(d, "."+c.Ext) && path.Base(d) != "."+c.Ext {
				out = append(out, d)
			}
		}
		return ok(list(out))
	case "Glob": // pattern <a>/*
		if m.isFile(a) {
			return conflict
		}
		var out []string
		for _, ch := range m.children(a) {
			out = append(out, path.Join(a, ch))
		}
		return ok(list(out))
	case "GetFileSize":
		switch {
		case !m.exists(a):
			return fail("not-found")
		case m.isDir(a):
			return conflict
		}
		return ok(fmt.Sprint(len(m.nodes[a].data)))
	case "FileHash":
		if !m.isFile(a) {
			if m.isDir(a) {
				return conflict
			}
			return fail("invalid")
		}
		s := md5.Sum(m.nodes[a].data)
		return ok(hex.EncodeToString(s[:]))
	case "Rm":
		if a == "." {
			return conflict // removing the sandbox itself is not part of the programs
		}
		m.rm(a)
		return ok("")
	case "CleanDir":
		if m.isFile(a) {
			return conflict
		}
		if m.exists(a) {
			for _, d := range m.descendants(a) {
				delete(m.nodes, d)
			}
		}
		return ok("")
	case "Copy":
		return m.copy(a, b, trailingB, c.A == c.B)
	case "CopyToDirectory":
		// documented: creates the destination directory if missing, then cp -r src into it
		if m.fileOnPath(b, true) {
			return conflict
		}
		if a == b || under(b, a) {
			return conflict // source / destination overlap: second sentence of the property (mode B)
		}
		if r := m.copyPrecheck(a, b); r != nil {
			return *r
		}
		m.mkdirAll(b)
		if !m.exists(a) {
			return fail("not-found")
		}
		return m.copy(a, b, true, false)
	case "CopyToFile":
		switch {
		case m.isDir(a):
			return conflict
		case !m.exists(a):
			return fail("invalid")
		case m.isDir(b):
			return conflict
		case !m.exists(b) && (c.B == "" || trailingB):
			return fail("invalid")
		}
		if a == b {
			return conflict // overlap: mode B
		}
		return m.copy(a, b, false, false)
	case "Move":
		switch {
		case c.A == c.B:
			return ok("")
		case !m.exists(a):
			return fail("not-found")
		case a == b:
			return conflict // same entry under two spellings: unspecified
		case under(b, a):
			return conflict // mv into own subtree
		case m.fileOnPath(b, false):
			return conflict
		}
		if m.exists(b) {
			if m.isDir(b) && parentOf(a) == b {
				// the entry is moved into the directory it is already in: nothing happens
				return ok("")
			}
			if m.isDir(b) {
				return Result{Known: "C06-R22 move onto an existing directory (backends differ, neither is mv)"}
			}
			if m.isDir(a) {
				return conflict
			}
		} else if trailingB {
			return Result{Known: "C06-R22 move to a missing destination spelled with a trailing separator"}
		}
		// mv: dest takes the place of src (parents of dest are created: documented deviation from mv)
		m.mkdirAll(parentOf(b))
		moved := map[string]*mnode{b: m.nodes[a]}
		for _, d := range m.descendants(a) {
			moved[b+strings.TrimPrefix(d, a)] = m.nodes[d]
		}
		if m.exists(b) {
			m.rm(b)
		}
		m.rm(a)
		for k, v := range moved {
			m.nodes[k] = v
		}
		return ok("")
	case "ConvertToRelativePath":
		return conflict // pure path function, checked separately
	}
	panic("model: unknown op " + c.Op)
}

// copyPrecheck returns a non-nil result when the copy is outside Mode A.
func (m *Model) copyPrecheck(a, b string) *Result {
	// source / destination overlap belongs to the second sentence of the property (mode B)
	if a == b || (m.isDir(a) && under(b, a)) {
		r := conflict
		return &r
	}
	return nil
}

// copy implements cp -r with the two documented deviations: a missing destination takes a file source as a
// file unless it is spelled with a trailing separator, and missing parents of the destination are created.
func (m *Model) copy(a, b string, trailingB bool, sameSpelling bool) Result {
	if sameSpelling {
		return ok("")
	}
	if !m.exists(a) {
		return fail("not-found")
	}
	if r := m.copyPrecheck(a, b); r != nil {
		return *r
	}
	if m.fileOnPath(b, false) {
		return conflict
	}
	srcDir := m.isDir(a)
	var dst string
	switch {
	case m.exists(b) && m.isDir(b):
		dst = path.Join(b, path.Base(a))
	case m.exists(b): // existing file
		if srcDir {
			return conflict
		}
		dst = b
	case srcDir:
		dst = b
	case trailingB:
		dst = path.Join(b, path.Base(a))
	default:
		dst = b
	}
	if a == dst || (srcDir && under(dst, a)) {
		return conflict
	}
	// dry run for kind conflicts
	plan := map[string]*mnode{}
	var walk func(s, d string) bool
	walk = func(s, d string) bool {
		if m.nodes[s].dir {
			if m.isFile(d) || (plan[d] != nil && !plan[d].dir) {
				return false
			}
			plan[d] = &mnode{dir: true}
			for _, ch := range m.children(s) {
				if !walk(path.Join(s, ch), path.Join(d, ch)) {
					return false
				}
			}
			return true
		}
		if m.isDir(d) {
			return false
		}
		plan[d] = &mnode{data: m.nodes[s].data}
		return true
	}
	if !walk(a, dst) {
		return conflict
	}
	// overlap of source and destination trees other than the cases above is left out of Mode A
	for d := range plan {
		if d == a || under(d, a) {
			return conflict
		}
	}
	m.mkdirAll(parentOf(dst))
	for d, n := range plan {
		if n.dir {
			m.mkdirAll(d)
		} else {
			m.nodes[d] = n
		}
	}
	return ok("")
}

// Snapshot renders the model tree in the form of treegen snapshots: path -> "dir" | "file:<size>:<md5/4>".
func (m *Model) Snapshot() map[string]string {
	out := map[string]string{}
	for k, n := range m.nodes {
		if n.dir {
			out[k] = "dir"
		} else {
			s := md5.Sum(n.data)
			out[k] = fmt.Sprintf("file:%d:%s", len(n.data), hex.EncodeToString(s[:4]))
		}
	}
	return out
}
