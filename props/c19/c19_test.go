// Package c19 decides C19: paginators yield every item exactly once, in order.
package c19

import (
	"context"
	"encoding/json"
	"errors"
	"fmt"
	"sync"
	"sync/atomic"
	"testing"
	"time"

	"pgregory.net/rapid"

	"github.com/ARM-software/golang-utils/utils/collection/pagination"

	"verif/internal/ev"
)

const prop = "C19"

func TestMain(m *testing.M) { ev.Main(m) }

// PageSpec describes one page and how its successor is reached.
type PageSpec struct {
	Items      int    `json:"items"`                 // number of items (ids are global indices)
	Link       string `json:"link"`                  // how page i+1 is reached: next | future ; last page: end | idle
	EmptyPolls int    `json:"empty_polls,omitempty"` // future link: number of empty placeholder pages served first
	FailFetch  int    `json:"fail_fetch,omitempty"`  // fetching the successor fails: 1 once, 2 always
	FailIter   bool   `json:"fail_iterator,omitempty"`
	// StopDuringFetch: while the successor of this page is being fetched, somebody calls Stop() on the paginator; the
	// fetch itself still succeeds (a fetcher need not watch the context)
	StopDuringFetch bool `json:"stop_during_fetch,omitempty"`
}

type Op struct {
	Kind string `json:"op"` // hasnext | getnext | stop | close | cancel | dryup | sleep
	N    int    `json:"n,omitempty"`
}

type Case struct {
	Ctor       string     `json:"constructor"` // collection | static | stream | static-stream | abstract
	Pages      []PageSpec `json:"pages"`
	FailFirst  bool       `json:"first_page_fetch_fails,omitempty"`
	NilFirst   bool       `json:"-"`
	Ops        []Op       `json:"ops"`
	GraceMs    int        `json:"grace_ms,omitempty"`
	BackoffUs  int        `json:"backoff_us,omitempty"`
	DryAfterMs int        `json:"dryup_timer_ms,omitempty"` // idle streams: a timer tells the paginator to dry up
	// PurelyStatic: the constructors for static pages receive pages that implement the static interfaces only
	PurelyStatic bool `json:"purely_static_pages,omitempty"`
}

var errFetch = errors.New("scripted page fetch failure")
var errIter = errors.New("scripted iterator construction failure")

// ---- page implementation -----------------------------------------------------------------

type world struct {
	c         *Case
	start     []int // first item id of page i
	failed    map[int]bool
	polls     map[int]int
	fetches   atomic.Int64
	mu        sync.Mutex
	transient bool // some scripted fetch failed once (HasNext may flip from false to true)
	// stopOnFetch is Stop()() of the paginator under test; stoppedByFetch tells that it was called from inside a fetch
	stopOnFetch    func()
	stoppedByFetch atomic.Bool
}

func (w *world) maybeStop(idx int) {
	if w.c.Pages[idx].StopDuringFetch && w.stopOnFetch != nil && w.stoppedByFetch.CompareAndSwap(false, true) {
		w.stopOnFetch()
	}
}

type sliceIt struct {
	items []int
	pos   int
}

func (s *sliceIt) HasNext() bool { return s.pos < len(s.items) }
func (s *sliceIt) GetNext() (interface{}, error) {
	if s.pos >= len(s.items) {
		return nil, errors.New("no more items in page")
	}
	v := s.items[s.pos]
	s.pos++
	return v, nil
}

// page implements IStaticPage, IPage, IStaticPageStream and IStream.
type page struct {
	w     *world
	idx   int  // index in the script; placeholders carry the index of the page they precede
	empty bool // placeholder served while the future page is not there yet
	idle  bool // placeholder of an idle stream end
}

func (p *page) spec() PageSpec { return p.w.c.Pages[p.idx] }

func (p *page) HasNext() bool {
	if p.empty || p.idle {
		return false
	}
	return p.spec().Link == "next"
}

func (p *page) HasFuture() bool {
	if p.idle || p.empty {
		return true
	}
	l := p.spec().Link
	return l == "future" || l == "idle"
}

func (p *page) items() []int {
	if p.empty || p.idle {
		return nil
	}
	n := p.spec().Items
	out := make([]int, n)
	for i := range out {
		out[i] = p.w.start[p.idx] + i
	}
	return out
}

func (p *page) GetItemIterator() (pagination.IIterator, error) {
	if !p.empty && !p.idle && p.spec().FailIter {
		return nil, errIter
	}
	return &sliceIt{items: p.items()}, nil
}

func (p *page) GetItemCount() (int64, error) { return int64(len(p.items())), nil }

func (p *page) failNow() bool {
	p.w.mu.Lock()
	defer p.w.mu.Unlock()
	switch p.spec().FailFetch {
	case 2:
		return true
	case 1:
		if !p.w.failed[p.idx] {
			p.w.failed[p.idx] = true
			p.w.transient = true
			return true
		}
	}
	return false
}

func (p *page) next(ctx context.Context) (*page, error) {
	p.w.fetches.Add(1)
	if err := ctx.Err(); err != nil {
		return nil, err
	}
	if p.failNow() {
		return nil, errFetch
	}
	p.w.maybeStop(p.idx)
	return &page{w: p.w, idx: p.idx + 1}, nil
}

func (p *page) future(ctx context.Context) (*page, error) {
	p.w.fetches.Add(1)
	if err := ctx.Err(); err != nil {
		return nil, err
	}
	if p.idle || (!p.empty && p.spec().Link == "idle") {
		return &page{w: p.w, idx: p.idx, idle: true}, nil
	}
	// p is page idx (real) or a placeholder before idx+1
	real := p.idx
	if p.failNow() {
		return nil, errFetch
	}
	p.w.mu.Lock()
	polls := p.w.polls[real]
	p.w.polls[real]++
	p.w.mu.Unlock()
	if polls < p.w.c.Pages[real].EmptyPolls {
		return &page{w: p.w, idx: real, empty: true}, nil
	}
	p.w.maybeStop(real)
	return &page{w: p.w, idx: real + 1}, nil
}

func (p *page) GetNext(ctx context.Context) (pagination.IPage, error) {
	n, err := p.next(ctx)
	if err != nil {
		return nil, err
	}
	return n, nil
}

func (p *page) GetFuture(ctx context.Context) (pagination.IStream, error) {
	n, err := p.future(ctx)
	if err != nil {
		return nil, err
	}
	return n, nil
}

// ---- generator --------------------------------------------------------------------------------

// staticPage is a page that cannot reach its successors by itself: it offers IStaticPageStream and nothing more (the
// constructors for static pages must not rely on the page also being a dynamic one).
type staticPage struct{ p *page }

func (s *staticPage) HasNext() bool                                  { return s.p.HasNext() }
func (s *staticPage) HasFuture() bool                                { return s.p.HasFuture() }
func (s *staticPage) GetItemIterator() (pagination.IIterator, error) { return s.p.GetItemIterator() }
func (s *staticPage) GetItemCount() (int64, error)                   { return s.p.GetItemCount() }

func inner(x interface{}) *page {
	if sp, ok := x.(*staticPage); ok {
		return sp.p
	}
	return x.(*page)
}

func genCase(t *rapid.T) Case {
	c := Case{Ctor: rapid.SampledFrom([]string{"collection", "static", "stream", "static-stream", "abstract"}).Draw(t, "ctor")}
	stream := c.Ctor == "stream" || c.Ctor == "static-stream"
	n := rapid.IntRange(1, 20).Draw(t, "pages")
	if rapid.IntRange(0, 9).Draw(t, "tiny") == 0 {
		n = 1
	}
	failures := rapid.IntRange(0, 3).Draw(t, "with-failures") == 0
	for i := 0; i < n; i++ {
		p := PageSpec{Items: rapid.SampledFrom([]int{0, 0, 1, 2, 3, 5, 10}).Draw(t, fmt.Sprintf("items%d", i)), Link: "next"}
		if stream && rapid.IntRange(0, 2).Draw(t, fmt.Sprintf("future%d", i)) == 0 {
			p.Link = "future"
			p.EmptyPolls = rapid.IntRange(0, 3).Draw(t, fmt.Sprintf("polls%d", i))
		}
		if i == n-1 {
			p.Link = "end"
			if stream && rapid.IntRange(0, 2).Draw(t, "idle-end") == 0 {
				p.Link = "idle"
			}
		} else if failures && rapid.IntRange(0, 5).Draw(t, fmt.Sprintf("fail%d", i)) == 0 {
			p.FailFetch = rapid.IntRange(1, 2).Draw(t, fmt.Sprintf("failkind%d", i))
		} else if rapid.IntRange(0, 24).Draw(t, fmt.Sprintf("stopfetch%d", i)) == 0 {
			p.StopDuringFetch = true
		}
		// iterator construction failures are generated for the first page only (a constructor failure): what a
		// failing iterator of a later page should do is outside the property's quantifier (page-fetch failures)
		if i == 0 && failures && rapid.IntRange(0, 9).Draw(t, fmt.Sprintf("failiter%d", i)) == 0 {
			p.FailIter = true
		}
		c.Pages = append(c.Pages, p)
	}
	if failures {
		c.FailFirst = rapid.IntRange(0, 9).Draw(t, "fail-first") == 0
	}
	if stream {
		c.GraceMs = rapid.IntRange(1, 5).Draw(t, "grace")
		c.BackoffUs = rapid.SampledFrom([]int{0, 100, 1000}).Draw(t, "backoff")
		c.DryAfterMs = rapid.IntRange(1, 8).Draw(t, "dry-timer")
	}
	if c.Ctor == "static" || c.Ctor == "static-stream" || c.Ctor == "abstract" {
		c.PurelyStatic = rapid.Bool().Draw(t, "purely-static")
	}
	nops := rapid.IntRange(0, 60).Draw(t, "ops")
	for i := 0; i < nops; i++ {
		k := rapid.SampledFrom([]string{"hasnext", "hasnext", "getnext", "getnext", "getnext", "getnext", "stop", "close", "cancel", "dryup", "sleep"}).Draw(t, fmt.Sprintf("op%d", i))
		switch k {
		case "stop", "close", "cancel":
			if rapid.IntRange(0, 6).Draw(t, fmt.Sprintf("keep-stop%d", i)) > 0 {
				k = "getnext"
			}
		case "dryup", "sleep":
			if !stream {
				k = "hasnext"
			}
		}
		op := Op{Kind: k}
		if k == "hasnext" {
			op.N = rapid.IntRange(1, 3).Draw(t, fmt.Sprintf("rep%d", i))
		}
		if k == "sleep" {
			op.N = rapid.IntRange(1, 6).Draw(t, fmt.Sprintf("ms%d", i))
		}
		c.Ops = append(c.Ops, op)
	}
	return c
}

func (c Case) nontrivial() bool {
	for i, p := range c.Pages {
		if p.Items == 0 && i > 0 && i < len(c.Pages)-1 {
			return true
		}
		if p.FailFetch != 0 || p.FailIter {
			return true
		}
	}
	prevHas := false
	for _, o := range c.Ops {
		if o.Kind == "getnext" && !prevHas {
			return true // GetNext without HasNext
		}
		if o.Kind == "hasnext" && o.N > 1 {
			return true
		}
		prevHas = o.Kind == "hasnext"
		if o.Kind == "stop" || o.Kind == "close" || o.Kind == "cancel" || o.Kind == "dryup" {
			return true
		}
	}
	return c.FailFirst
}

// ---- oracle ----------------------------------------------------------------------------------------

type paginator interface {
	HasNext() bool
	GetNext() (interface{}, error)
	Stop() context.CancelFunc
	Close() error
}

type dryer interface {
	DryUp() error
	IsRunningDry() bool
}

func construct(c *Case, w *world, ctx context.Context) (paginator, error, bool) {
	first := &page{w: w, idx: 0}
	grace, backoff := time.Duration(c.GraceMs)*time.Millisecond, time.Duration(c.BackoffUs)*time.Microsecond
	wrapS := func(n *page) pagination.IStaticPageStream {
		if c.PurelyStatic {
			return &staticPage{p: n}
		}
		return n
	}
	fetchNextStatic := func(fctx context.Context, cur pagination.IStaticPage) (pagination.IStaticPage, error) {
		n, err := inner(cur).next(fctx)
		if err != nil {
			return nil, err
		}
		return wrapS(n), nil
	}
	fetchFutureStatic := func(fctx context.Context, cur pagination.IStaticPageStream) (pagination.IStaticPageStream, error) {
		n, err := inner(cur).future(fctx)
		if err != nil {
			return nil, err
		}
		return wrapS(n), nil
	}
	var p paginator
	var err error
	var isNil bool
	switch c.Ctor {
	case "collection":
		var r pagination.IPaginator
		r, err = pagination.NewCollectionPaginator(ctx, func(context.Context) (pagination.IPage, error) {
			if c.FailFirst {
				return nil, errFetch
			}
			return first, nil
		})
		p, isNil = r, r == nil
	case "static":
		var r pagination.IPaginatorAndPageFetcher
		r, err = pagination.NewStaticPagePaginator(ctx, func(context.Context) (pagination.IStaticPage, error) {
			if c.FailFirst {
				return nil, errFetch
			}
			return wrapS(first), nil
		}, fetchNextStatic)
		p, isNil = r, r == nil
	case "stream":
		var r pagination.IStreamPaginator
		r, err = pagination.NewStreamPaginator(ctx, grace, backoff, func(context.Context) (pagination.IStream, error) {
			if c.FailFirst {
				return nil, errFetch
			}
			return first, nil
		})
		p, isNil = r, r == nil
	case "static-stream":
		var r pagination.IStreamPaginatorAndPageFetcher
		r, err = pagination.NewStaticPageStreamPaginator(ctx, grace, backoff, func(context.Context) (pagination.IStaticPageStream, error) {
			if c.FailFirst {
				return nil, errFetch
			}
			return wrapS(first), nil
		}, fetchNextStatic, fetchFutureStatic)
		p, isNil = r, r == nil
	default:
		if c.FailFirst {
			return nil, errFetch, true // NewAbstractPaginator takes the page itself
		}
		var r *pagination.AbstractPaginator
		r, err = pagination.NewAbstractPaginator(ctx, wrapS(first), fetchNextStatic)
		p, isNil = r, r == nil
	}
	return p, err, isNil
}

func checkCase(t ev.T, test string, c Case) {
	w := &world{c: &c, failed: map[int]bool{}, polls: map[int]int{}}
	total := 0
	for _, p := range c.Pages {
		w.start = append(w.start, total)
		total += p.Items
	}
	// reachable items: pages up to the first permanently failing fetch / failing iterator
	reachable := 0
	blockedByFailure := false
	for i, p := range c.Pages {
		if p.FailIter {
			blockedByFailure = true
			break
		}
		reachable += p.Items
		if p.FailFetch == 2 {
			blockedByFailure = true
			break
		}
		_ = i
	}
	stream := c.Ctor == "stream" || c.Ctor == "static-stream"
	idleEnd := c.Pages[len(c.Pages)-1].Link == "idle"
	ctx, cancel := context.WithCancel(context.Background())
	defer cancel()

	var p paginator
	var cerr error
	var isNil bool
	ev.Guard(t, prop, test, c, func() { p, cerr, isNil = construct(&c, w, ctx) })
	if c.Ctor == "abstract" && c.FailFirst {
		return
	}
	// constructor failures are reported as errors
	if c.FailFirst || c.Pages[0].FailIter {
		if cerr == nil {
			ev.Fail(t, prop, test, c, "constructor %s: first page fetch failed=%v, iterator construction failed=%v, but the constructor returned a nil error (paginator nil=%v)", c.Ctor, c.FailFirst, c.Pages[0].FailIter, isNil)
		}
		return
	}
	if cerr != nil || isNil {
		ev.Fail(t, prop, test, c, "constructor %s failed on a healthy first page: %v (nil paginator=%v)", c.Ctor, cerr, isNil)
	}

	w.stopOnFetch = func() { p.Stop()() }
	yielded := 0
	stopped := false
	dried := false
	// dryMark is the instant the first DryUp call (by an op or by the timer) was entered: the documented grace
	// period "between the stream being marked as running dry and the iteration actually ending" runs from there
	var dryMark atomic.Int64
	markDry := func() { dryMark.CompareAndSwap(0, time.Now().UnixNano()) }
	sinceDry := func() time.Duration {
		m := dryMark.Load()
		if m == 0 {
			return 0
		}
		return time.Duration(time.Now().UnixNano() - m)
	}
	grace := time.Duration(c.GraceMs) * time.Millisecond

	// idle streams never end by themselves: a timer dries them up so that blocked calls come back
	var timer *time.Timer
	var timerFired atomic.Bool
	if stream {
		if d, ok := p.(dryer); ok {
			timer = time.AfterFunc(time.Duration(c.DryAfterMs)*time.Millisecond+30*time.Millisecond, func() {
				timerFired.Store(true)
				markDry()
				_ = d.DryUp()
			})
			defer timer.Stop()
		}
	}
	isDry := func() bool {
		if d, ok := p.(dryer); ok {
			return d.IsRunningDry()
		}
		return false
	}

	// call runs f with a watchdog: a call that neither returns nor keeps polling is reported; one that
	// keeps polling beyond 10 s after having been told to dry up is reported too.
	call := func(what string, f func()) {
		done := make(chan struct{})
		go func() {
			defer close(done)
			ev.Guard(t, prop, test, c, f)
		}()
		select {
		case <-done:
		case <-time.After(10 * time.Second):
			ev.Fail(t, prop, test, c, "%s did not return within 10 s (grace %v, dry-up told=%v, page fetches so far %d)", what, grace, isDry(), w.fetches.Load())
		}
	}

	hasNext := func() bool {
		var r bool
		call("HasNext", func() { r = p.HasNext() })
		return r
	}

	expectAvailable := func() (definitely bool, definitelyNot bool) {
		// definitely: the model says an item is available whatever the timing
		// definitelyNot: the model says nothing can be yielded
		if stopped {
			return false, true
		}
		if yielded >= reachable {
			return false, true
		}
		if w.transient || blockedByFailure && yielded >= reachable {
			return false, false
		}
		if stream && (dried || timerFired.Load() || isDry()) {
			// after a dry-up the grace period decides; items in the current page are still there, but we
			// only know "maybe"
			return false, false
		}
		// transient failures ahead make HasNext flip: maybe
		for i, pg := range c.Pages {
			if pg.FailFetch == 1 && !w.failed[i] {
				return false, false
			}
		}
		return true, false
	}

	// nextIsKnown: the next item to come lies in the page being read or in a page reached from it through next links
	// only - no future link in between. The grace period bounds the wait for future pages; it says nothing about these.
	nextIsKnown := func() bool {
		if yielded >= reachable {
			return false
		}
		last, pos := 0, 0
		for i := range c.Pages {
			if yielded > 0 && w.start[i] <= yielded-1 && yielded-1 < w.start[i]+c.Pages[i].Items {
				last = i
			}
			if w.start[i] <= yielded && yielded < w.start[i]+c.Pages[i].Items {
				pos = i
				break
			}
		}
		for q := last; q < pos; q++ {
			if c.Pages[q].Link != "next" {
				return false
			}
		}
		return true
	}
	knownLost := func(i int, what string) {
		if stream && !stopped && !w.stoppedByFetch.Load() && !w.transient && !blockedByFailure && nextIsKnown() {
			for _, pg := range c.Pages {
				if pg.FailFetch != 0 {
					return
				}
			}
			ev.Fail(t, prop, test, c, "op %d: %s although item %d lies in a page already reached (no future link between the last item yielded and it): the grace period only bounds the wait for future pages (dry-up told=%v, %v ago, grace %v)", i, what, yielded, isDry(), sinceDry().Round(time.Microsecond), grace)
		}
	}

	step := func(i int, o Op) {
		switch o.Kind {
		case "hasnext":
			def, defNot := expectAvailable()
			first := false
			for k := 0; k < o.N; k++ {
				r := hasNext()
				if w.stoppedByFetch.Load() && !stopped {
					stopped, def, defNot = true, false, true
				}
				if k == 0 {
					first = r
				}
				if defNot && r {
					ev.Fail(t, prop, test, c, "op %d: HasNext() = true but nothing can be yielded any more (yielded %d of %d reachable, stopped=%v)", i, yielded, reachable, stopped)
				}
				if def && !r && !(stream && isDry()) { // the timer may have marked the stream dry during the call: the grace rule below decides then
					ev.Fail(t, prop, test, c, "op %d: HasNext() = false although item %d is still to come (yielded %d, reachable %d, no failure, not stopped, not drying up)", i, yielded, yielded, reachable)
				}
				if first && !r && !stopped {
					// true then false without consuming anything: only a drying stream may do that
					if !(stream && (isDry() || timerFired.Load())) {
						ev.Fail(t, prop, test, c, "op %d: HasNext() returned true and then false with no GetNext in between", i)
					}
				}
				if !r {
					knownLost(i, "stream HasNext() = false")
				}
				if !r && stream && !stopped && yielded < reachable && !w.transient && !blockedByFailure {
					// a stream ended early: allowed only once told to dry up and after the grace period
					if !isDry() {
						ev.Fail(t, prop, test, c, "op %d: stream HasNext() = false with %d items still in future pages and no dry-up requested", i, reachable-yielded)
					}
					if el := sinceDry(); el < grace {
						ev.Fail(t, prop, test, c, "op %d: stream HasNext() = false %v after being marked as running dry, before the grace period %v elapsed (%d items still in future pages)", i, el, grace, reachable-yielded)
					}
				}
			}
		case "getnext":
			def, defNot := expectAvailable()
			var item interface{}
			var err error
			call("GetNext", func() { item, err = p.GetNext() })
			if w.stoppedByFetch.Load() && !stopped {
				// Stop() was called (and had returned) while this very call was fetching the next page
				stopped, def, defNot = true, false, true
			}
			if err == nil {
				v, ok := item.(int)
				if !ok || v != yielded {
					ev.Fail(t, prop, test, c, "op %d: GetNext() yielded %v, want item %d (items must come exactly once, in page order then in-page order)", i, item, yielded)
				}
				if defNot {
					ev.Fail(t, prop, test, c, "op %d: GetNext() yielded %v although nothing may be yielded any more (stopped=%v, yielded %d of %d)", i, item, stopped, yielded, reachable)
				}
				yielded++
			} else {
				if def && !(stream && isDry()) {
					ev.Fail(t, prop, test, c, "op %d: GetNext() failed (%v) although item %d is available (no failure scripted, not stopped, not drying up)", i, err, yielded)
				}
				if item != nil {
					ev.Fail(t, prop, test, c, "op %d: GetNext() returned both an item (%v) and an error (%v)", i, item, err)
				}
				knownLost(i, fmt.Sprintf("stream GetNext() failed (%v)", err))
				if stream && !stopped && yielded < reachable && !w.transient && !blockedByFailure {
					if !isDry() {
						ev.Fail(t, prop, test, c, "op %d: stream GetNext() failed (%v) with %d items still in future pages and no dry-up requested", i, err, reachable-yielded)
					}
					if el := sinceDry(); el < grace {
						ev.Fail(t, prop, test, c, "op %d: stream GetNext() failed %v after being marked as running dry, before the grace period %v elapsed (%d items still in future pages)", i, el, grace, reachable-yielded)
					}
				}
				// error <=> no item available: HasNext agrees
				if !stream && !w.transient {
					if hasNext() {
						ev.Fail(t, prop, test, c, "op %d: GetNext() failed (%v) but HasNext() says an item is available", i, err)
					}
				}
			}
		case "stop":
			p.Stop()()
			stopped = true
		case "close":
			_ = p.Close()
			stopped = true
		case "cancel":
			cancel()
			stopped = true
		case "dryup":
			if d, ok := p.(dryer); ok {
				markDry()
				_ = d.DryUp()
				dried = true
				if !d.IsRunningDry() {
					ev.Fail(t, prop, test, c, "op %d: IsRunningDry() false after DryUp()", i)
				}
			}
		case "sleep":
			time.Sleep(time.Duration(o.N) * time.Millisecond)
		}
	}
	for i, o := range c.Ops {
		step(i, o)
	}
	// completeness: iterate to exhaustion (when no failure, not stopped) and compare with the whole concatenation
	if !stopped {
		n := len(c.Ops)
		for guard := 0; guard < total+5; guard++ {
			if !hasNext() {
				knownLost(n, "stream HasNext() = false (final iteration)")
				break
			}
			step(n, Op{Kind: "getnext"})
			n++
		}
		if w.stoppedByFetch.Load() {
			// the paginator was stopped from inside a page fetch during this last walk: what it had to yield ended there
			stopped = true
			if hasNext() {
				ev.Fail(t, prop, test, c, "HasNext() = true after Stop() (called while a page was being fetched)")
			}
			return
		}
		clean := !w.transient && !blockedByFailure
		for _, pg := range c.Pages {
			if pg.FailFetch != 0 || pg.FailIter {
				clean = false
			}
		}
		driedEarly := stream && (dried || (idleEnd && false))
		if clean && !driedEarly && yielded != total {
			// an idle-ended stream is dried by the timer only after everything available was consumed,
			// unless consumption itself took longer than the timer: then the grace rule above applies
			if !(stream && isDry() && yielded < total) {
				ev.Fail(t, prop, test, c, "iterating to exhaustion yielded %d items, the pages hold %d", yielded, total)
			}
		}
		if hasNext() && yielded >= reachable {
			ev.Fail(t, prop, test, c, "HasNext() true after exhaustion")
		}
	} else {
		// after Stop / Close / cancellation nothing more is yielded
		if hasNext() {
			ev.Fail(t, prop, test, c, "HasNext() = true after Stop/Close/cancellation")
		}
		var item interface{}
		var err error
		call("GetNext", func() { item, err = p.GetNext() })
		if err == nil {
			ev.Fail(t, prop, test, c, "GetNext() yielded %v after Stop/Close/cancellation", item)
		}
	}
	_ = p.Close()
}

func replayCase(t ev.T, raw json.RawMessage) {
	var c Case
	if err := json.Unmarshal(raw, &c); err != nil {
		t.Fatalf("HARNESS: %v", err)
	}
	checkCase(t, "TestPaginators", c)
}

func init() {
	ev.RegisterReplay("TestPaginators", replayCase)
}

func TestReplay(t *testing.T)      { ev.RunReplay(t) }
func TestRegressions(t *testing.T) { ev.Regressions(t, prop) }

func TestPaginators(t *testing.T) {
	rapid.Check(t, func(rt *rapid.T) {
		c := genCase(rt)
		key, _ := json.Marshal(c)
		cl := c.Ctor
		for _, p := range c.Pages {
			if p.FailFetch != 0 || p.FailIter {
				cl += "/failures"
				break
			}
		}
		ev.Case(string(key), c.nontrivial(), cl, c)
		checkCase(rt, "TestPaginators", c)
	})
}
