// Package c03 decides C03: unzip resource limits hold (zip bombs, nested bombs, lying headers).
package c03

import (
	"context"
	"encoding/json"
	"fmt"
	"os"
	"path"
	"path/filepath"
	"sort"
	"strings"
	"testing"

	"github.com/spf13/afero"
	"pgregory.net/rapid"

	"github.com/ARM-software/golang-utils/utils/commonerrors"
	"github.com/ARM-software/golang-utils/utils/filesystem"

	"verif/internal/ev"
	"verif/internal/fsbox"
	"verif/internal/treegen"
	"verif/internal/zipgen"
)

const prop = "C03"

func TestMain(m *testing.M) { ev.Main(m) }

type Limits struct {
	Apply     bool   `json:"apply"`
	FileSize  int64  `json:"max_file_size"`
	TotalSize uint64 `json:"max_total_size"`
	FileCount int64  `json:"max_file_count"`
	Depth     int64  `json:"max_depth"`
	Recursive bool   `json:"recursive"`
}

type Case struct {
	Backend string         `json:"backend"`
	Archive zipgen.Archive `json:"archive"`
	Limits  Limits         `json:"limits"`
	How     [4]string      `json:"limit_choice"` // per limit: tiny | exact-1 | exact | exact+1 | huge (informational)
	// Global: call the package-level function (which works on the process-wide OS filesystem) instead of the method of
	// the filesystem object (OS backend only)
	Global bool `json:"package_level_function,omitempty"`
	// CwdIsDest: the working directory of the process is the destination (OS backend): what the limits count does not
	// depend on where the process happens to stand
	CwdIsDest bool `json:"working_directory_is_the_destination,omitempty"`
}

// ---- reference accounting ---------------------------------------------------------------------------------

type refFile struct {
	size     int64
	declared uint64 // largest declared size among the entries writing this path
}

type refResult struct {
	files      map[string]*refFile // final tree: path below dest -> file
	dirs       map[string]bool
	containers []int64             // byte sizes of nested archives that get written and expanded
	everFiles  map[string]*refFile // every path ever written (incl. nested containers), for the high-water clause
	wellFormed bool                // nothing but limits can make the extraction fail
	lying      bool                // some header contradicts its data
	nestDepth  int
}

var zipExts = []string{".zip", ".zipx", ".7z", ".s7z", ".gz", ".tar.gz", ".tgz", ".xz", ".lz", ".lzma", ".rz", ".pack", ".z", ".jar"}

func zipNamed(n string) bool {
	ext := strings.ToLower(path.Ext(n))
	for _, z := range zipExts {
		if ext == z {
			return true
		}
	}
	return false
}

func (r *refResult) addDirs(p string) {
	for d := path.Dir(p); d != "." && d != "/" && d != ""; d = path.Dir(d) {
		if _, isFile := r.files[d]; isFile {
			r.wellFormed = false
		}
		r.dirs[d] = true
	}
}

func walk(a *zipgen.Archive, base string, recursive bool, level int, r *refResult) {
	if level > r.nestDepth {
		r.nestDepth = level
	}
	for i := range a.Entries {
		e := &a.Entries[i]
		name := strings.Trim(string(e.Name), "/")
		p := path.Join(base, name)
		if name == "" {
			r.wellFormed = false
			continue
		}
		if e.Dir {
			if _, isFile := r.files[p]; isFile {
				r.wellFormed = false
			}
			r.dirs[p] = true
			r.addDirs(p)
			continue
		}
		if r.dirs[p] {
			r.wellFormed = false
		}
		r.addDirs(p)
		data := e.Data()
		declared := e.DeclaredSize(len(data))
		if declared != uint64(len(data)) || e.BadCRC {
			r.lying = true
			r.wellFormed = false
		}
		if ef, ok := r.everFiles[p]; ok {
			if declared > ef.declared {
				ef.declared = declared
			}
			r.wellFormed = false // duplicates: the library's counters are conservative
		} else {
			r.everFiles[p] = &refFile{size: int64(len(data)), declared: declared}
		}
		if recursive && zipNamed(name) {
			if e.Nested != nil {
				// written, expanded into <dir>/<stem>, then removed
				r.containers = append(r.containers, int64(len(data)))
				stem := strings.TrimSuffix(path.Base(p), path.Ext(p))
				nb := path.Join(path.Dir(p), stem)
				if _, isFile := r.files[nb]; isFile {
					r.wellFormed = false
				}
				r.dirs[nb] = true
				r.addDirs(nb)
				walk(e.Nested, nb, recursive, level+1, r)
				continue
			}
			// zip-named non-zip stays as a plain file
		}
		r.files[p] = &refFile{size: int64(len(data)), declared: declared}
	}
}

func reference(a *zipgen.Archive, recursive bool) *refResult {
	r := &refResult{files: map[string]*refFile{}, dirs: map[string]bool{}, everFiles: map[string]*refFile{}, wellFormed: true}
	walk(a, "", recursive, 0, r)
	return r
}

func depthOf(p string) int64 { return int64(strings.Count(p, "/")) }

func (r *refResult) needs() (maxFile int64, total uint64, count int64, depth int64) {
	for p, f := range r.files {
		if f.size > maxFile {
			maxFile = f.size
		}
		total += uint64(f.size)
		count++
		if d := depthOf(p); d > depth {
			depth = d
		}
	}
	for _, c := range r.containers {
		if c > maxFile {
			maxFile = c
		}
	}
	for d := range r.dirs {
		if dd := depthOf(d); dd > depth {
			depth = dd
		}
	}
	return
}

// ---- generator ----------------------------------------------------------------------------------------------

var comps = []string{"a", "b", "c", "d", "e", "src", "lib", "x.txt", "y.bin", "z.c", "data", "m", "n"}

func genArchive(t *rapid.T, label string, level, maxLevel int) zipgen.Archive {
	var a zipgen.Archive
	n := rapid.IntRange(0, 10).Draw(t, label+"-entries")
	if level > 0 && n == 0 {
		n = 1
	}
	for i := 0; i < n; i++ {
		depth := rapid.SampledFrom([]int{0, 0, 0, 1, 1, 2, 3, 5, 8}).Draw(t, fmt.Sprintf("%s-depth%d", label, i))
		var parts []string
		for d := 0; d <= depth; d++ {
			parts = append(parts, rapid.SampledFrom(comps).Draw(t, fmt.Sprintf("%s-p%d-%d", label, i, d)))
		}
		// mostly unique leaf names
		if rapid.IntRange(0, 9).Draw(t, fmt.Sprintf("%s-dup%d", label, i)) > 0 {
			parts[len(parts)-1] = fmt.Sprintf("%s%d", parts[len(parts)-1], i)
		}
		name := strings.Join(parts, "/")
		e := zipgen.Entry{}
		switch rapid.IntRange(0, 11).Draw(t, fmt.Sprintf("%s-kind%d", label, i)) {
		case 0, 1:
			e.Dir = true
			name += "/"
		case 2, 3:
			if level < maxLevel {
				nested := genArchive(t, fmt.Sprintf("%s-nest%d", label, i), level+1, maxLevel)
				e.Nested = &nested
				name += rapid.SampledFrom([]string{".zip", ".zip", ".jar", ".ZIP", ".Jar"}).Draw(t, fmt.Sprintf("%s-ext%d", label, i))
			}
		case 4:
			e.Garbage = true
			name += rapid.SampledFrom([]string{".zip", ".gz", ".jar", ".7z", ".ZIP", ".Jar", ".GZ", ".7Z", ".tar.gz", ".Zip"}).Draw(t, fmt.Sprintf("%s-gext%d", label, i))
		}
		if !e.Dir && e.Nested == nil {
			var sz int
			switch rapid.IntRange(0, 7).Draw(t, fmt.Sprintf("%s-szc%d", label, i)) {
			case 0:
				sz = 0
			case 1:
				sz = 1
			case 2, 3, 4:
				sz = rapid.IntRange(0, 2000).Draw(t, fmt.Sprintf("%s-sz%d", label, i))
			case 5:
				sz = rapid.SampledFrom([]int{32767, 32768, 32769}).Draw(t, fmt.Sprintf("%s-sz%d", label, i))
			case 6:
				sz = rapid.IntRange(0, 100000).Draw(t, fmt.Sprintf("%s-sz%d", label, i))
			default:
				sz = rapid.IntRange(100000, 400000).Draw(t, fmt.Sprintf("%s-sz%d", label, i)) // highly compressible: ratio ~1000:1
			}
			kind := 0
			if sz < 5000 {
				kind = rapid.IntRange(0, 2).Draw(t, fmt.Sprintf("%s-ck%d", label, i))
			}
			e.Payload = treegen.Content{Len: sz, Kind: kind, Seed: uint64(i + 1)}
			e.Store = rapid.IntRange(0, 4).Draw(t, fmt.Sprintf("%s-store%d", label, i)) == 0
		}
		if !e.Dir && rapid.IntRange(0, 7).Draw(t, fmt.Sprintf("%s-lie%d", label, i)) == 0 {
			e.Declared = rapid.SampledFrom([]string{"-1", "-10", "-1000", "+1", "+10", "+1000", "0", "huge"}).Draw(t, fmt.Sprintf("%s-decl%d", label, i))
			if e.Declared == "0" && e.Nested == nil && e.Payload.Len == 0 {
				e.Declared = ""
			}
		}
		if !e.Dir && rapid.IntRange(0, 19).Draw(t, fmt.Sprintf("%s-crc%d", label, i)) == 0 {
			e.BadCRC = true
		}
		e.Name = []byte(name)
		e.NameQ = name
		a.Entries = append(a.Entries, e)
	}
	return a
}

var generous bool // set per case: every limit at least what the archive needs (so that successes are well represented)

// focus: when set, only that limit may be tight in this case, every other one is huge - so that the accounting behind
// each limit is exercised alone (with four independent draws, another limit usually refuses the archive first).
var focus string

func pick(t *rapid.T, label string, exact int64) (int64, string) {
	choices := []string{"tiny", "exact-1", "exact", "exact", "exact+1", "huge", "huge"}
	if generous {
		choices = []string{"exact", "exact", "exact+1", "huge"}
	}
	if focus != "" {
		if label != focus {
			return 1 << 40, "huge"
		}
		choices = []string{"exact-1", "exact-1", "exact", "exact+1"}
	}
	how := rapid.SampledFrom(choices).Draw(t, label)
	switch how {
	case "tiny":
		return 1, how
	case "exact-1":
		if exact-1 < 1 {
			return 1, how
		}
		return exact - 1, how
	case "exact":
		if exact < 1 {
			return 1, how
		}
		return exact, how
	case "exact+1":
		return exact + 1, how
	}
	return 1 << 40, how
}

func genCase(t *rapid.T) Case {
	maxLevel := 3
	if ev.Thorough() {
		maxLevel = 6
	}
	c := Case{Backend: rapid.SampledFrom([]string{"mem", "mem", "mem", "mem", "os"}).Draw(t, "backend")}
	c.Archive = genArchive(t, "a", 0, rapid.IntRange(0, maxLevel).Draw(t, "max-nesting"))
	c.Limits.Apply = rapid.IntRange(0, 9).Draw(t, "apply") > 0
	c.Limits.Recursive = rapid.Bool().Draw(t, "recursive")
	r := reference(&c.Archive, c.Limits.Recursive && c.Limits.Apply)
	mf, tot, cnt, dep := r.needs()
	c.Global = c.Backend == "os" && rapid.IntRange(0, 2).Draw(t, "package-level") == 0
	c.CwdIsDest = c.Backend == "os" && rapid.IntRange(0, 3).Draw(t, "cwd-is-dest") == 0
	generous = rapid.IntRange(0, 2).Draw(t, "generous") == 0
	focus = ""
	if rapid.IntRange(0, 2).Draw(t, "focused") == 0 {
		focus = rapid.SampledFrom([]string{"l-filesize", "l-total", "l-total", "l-count", "l-depth"}).Draw(t, "focus")
		generous = false
	}
	c.Limits.FileSize, c.How[0] = pick(t, "l-filesize", mf)
	ts, h := pick(t, "l-total", int64(tot))
	c.Limits.TotalSize, c.How[1] = uint64(ts), h
	c.Limits.FileCount, c.How[2] = pick(t, "l-count", cnt)
	switch rapid.IntRange(0, 3).Draw(t, "depth-negative") {
	case 0:
		c.Limits.Depth, c.How[3] = -1, "disabled"
	default:
		d, h := pick(t, "l-depth", dep)
		if h == "tiny" {
			d = 0
		}
		if h == "exact" {
			d = dep
		}
		if h == "exact-1" {
			d = dep - 1
			if d < 0 {
				d = 0
			}
		}
		c.Limits.Depth, c.How[3] = d, h
	}
	return c
}

func (c Case) nontrivial() bool {
	if !c.Limits.Apply {
		return false
	}
	for _, h := range c.How {
		if strings.HasPrefix(h, "exact") {
			return true
		}
	}
	var lying func(a *zipgen.Archive) bool
	lying = func(a *zipgen.Archive) bool {
		for _, e := range a.Entries {
			if e.Declared != "" || e.BadCRC || e.Nested != nil {
				return true
			}
		}
		return false
	}
	return lying(&c.Archive)
}

// ---- check ------------------------------------------------------------------------------------------------------

func checkCase(t ev.T, test string, c Case) {
	box := fsbox.New(c.Backend)
	defer box.Close()
	data, err := c.Archive.Render()
	if err != nil {
		t.Fatalf("HARNESS: render: %v", err)
	}
	arch := box.Path("in", "archive.zip")
	_ = box.Raw.MkdirAll(box.Path("in"), 0o755)
	if err := afero.WriteFile(box.Raw, arch, data, 0o644); err != nil {
		t.Fatalf("HARNESS: %v", err)
	}
	dest := box.Path("out")
	var limits filesystem.ILimits = filesystem.NoLimits()
	L := c.Limits
	if L.Apply {
		limits = filesystem.NewLimits(L.FileSize, L.TotalSize, L.FileCount, L.Depth, L.Recursive)
	}
	recursive := L.Apply && L.Recursive
	if c.CwdIsDest && c.Backend == "os" {
		_ = box.Raw.MkdirAll(dest, 0o755)
		wd, _ := os.Getwd()
		if err := os.Chdir(dest); err == nil {
			defer func() { _ = os.Chdir(wd) }()
		}
	}
	box.Backend.Reset()
	var uerr error
	ev.Guard(t, prop, test, c, func() {
		if c.Global && c.Backend == "os" {
			_, uerr = filesystem.UnzipWithContextAndLimits(context.Background(), arch, dest, limits)
		} else {
			_, uerr = box.FS.UnzipWithContextAndLimits(context.Background(), arch, dest, limits)
		}
	})
	ref := reference(&c.Archive, recursive)
	mf, tot, cnt, dep := ref.needs()

	// at all times: no file written beyond the per-file limit nor beyond its declared size
	for p, n := range box.Backend.MaxWritten() {
		if !strings.HasPrefix(p, dest+"/") {
			continue
		}
		rel := filepath.ToSlash(strings.TrimPrefix(p, dest+"/"))
		if L.Apply && n > L.FileSize {
			ev.Fail(t, prop, test, c, "%d bytes were written to %q, per-file limit %d (Unzip returned %v)", n, rel, L.FileSize, uerr)
		}
		if f, ok := ref.everFiles[rel]; ok && uint64(n) > f.declared {
			ev.Fail(t, prop, test, c, "%d bytes were written to %q although its header declares %d", n, rel, f.declared)
		}
	}

	if uerr == nil {
		ev.Class("success")
		if L.Apply {
			snap := box.Snap("out")
			var total uint64
			var count, maxFile, maxDepth int64
			var left []string
			for rel, e := range snap {
				if rel == "." {
					continue
				}
				if d := depthOf(rel); d > maxDepth {
					maxDepth = d
				}
				if e.Kind == "file" {
					count++
					total += uint64(e.Size)
					if e.Size > maxFile {
						maxFile = e.Size
					}
					if recursive && zipNamed(rel) {
						if f, ok := ref.everFiles[rel]; ok && f != nil {
							left = append(left, rel)
						}
					}
				}
			}
			if total > L.TotalSize {
				ev.Fail(t, prop, test, c, "success, but %d bytes are on disk, total limit %d", total, L.TotalSize)
			}
			if count > L.FileCount {
				ev.Fail(t, prop, test, c, "success, but %d files are on disk, count limit %d", count, L.FileCount)
			}
			if maxFile > L.FileSize {
				ev.Fail(t, prop, test, c, "success, but a file of %d bytes is on disk, per-file limit %d", maxFile, L.FileSize)
			}
			if L.Depth >= 0 && maxDepth > L.Depth {
				ev.Fail(t, prop, test, c, "success, but an entry at depth %d is on disk, depth limit %d", maxDepth, L.Depth)
			}
			// recursive mode: real nested archives were expanded
			for _, rel := range left {
				if _, stillFile := ref.files[rel]; !stillFile {
					ev.Fail(t, prop, test, c, "success in recursive mode, but the nested archive %q was left unexpanded", rel)
				}
			}
		}
		// headers that contradict the data must make the call fail
		if ref.lying {
			ev.Fail(t, prop, test, c, "a header contradicts its data (declared size or checksum) but Unzip reported success")
		}
	} else {
		switch {
		case commonerrors.Any(uerr, commonerrors.ErrTooLarge):
			ev.Class("refused-too-large")
		default:
			ev.Class("failed-other")
		}
	}
	// refusal: an archive that would exceed a limit must be refused, with the too-large kind when nothing else is wrong
	if L.Apply {
		exceeds := ""
		switch {
		case mf > L.FileSize:
			exceeds = fmt.Sprintf("largest file %d > per-file limit %d", mf, L.FileSize)
		case tot > L.TotalSize:
			exceeds = fmt.Sprintf("total %d > limit %d", tot, L.TotalSize)
		case cnt > L.FileCount:
			exceeds = fmt.Sprintf("%d files > limit %d", cnt, L.FileCount)
		case L.Depth >= 0 && dep > L.Depth:
			exceeds = fmt.Sprintf("depth %d > limit %d", dep, L.Depth)
		}
		if exceeds != "" {
			ev.Class("reference-exceeds")
			if uerr == nil {
				ev.Fail(t, prop, test, c, "the archive exceeds a limit (%s) but Unzip reported success", exceeds)
			}
			if ref.wellFormed && !commonerrors.Any(uerr, commonerrors.ErrTooLarge) {
				ev.Fail(t, prop, test, c, "the archive exceeds a limit (%s) and is otherwise well formed, but the error is %q, not the 'too large' kind", exceeds, uerr)
			}
		} else {
			ev.Class("reference-within-limits")
		}
	}
	if ref.nestDepth > 0 {
		ev.Class(fmt.Sprintf("nesting-%d", ref.nestDepth))
	}
}

func replayCase(t ev.T, raw json.RawMessage) {
	var c Case
	if err := json.Unmarshal(raw, &c); err != nil {
		t.Fatalf("HARNESS: %v", err)
	}
	checkCase(t, "TestUnzipLimits", c)
}

func init() { ev.RegisterReplay("TestUnzipLimits", replayCase) }

func TestReplay(t *testing.T)      { ev.RunReplay(t) }
func TestRegressions(t *testing.T) { ev.Regressions(t, prop) }

func TestUnzipLimits(t *testing.T) {
	rapid.Check(t, func(rt *rapid.T) {
		c := genCase(rt)
		key, _ := json.Marshal(c)
		how := append([]string{}, c.How[:]...)
		sort.Strings(how)
		cl := "limits-off"
		if c.Limits.Apply {
			cl = "limits/" + c.How[0] + "|" + c.How[1] + "|" + c.How[2] + "|" + c.How[3]
			cl = "limits-on"
		}
		ev.Case(string(key), c.nontrivial(), cl+"/"+c.Backend, c)
		if c.Limits.Apply {
			for i, n := range []string{"filesize", "total", "count", "depth"} {
				ev.Class("limit-" + n + "=" + c.How[i])
			}
		}
		checkCase(rt, "TestUnzipLimits", c)
	})
}
