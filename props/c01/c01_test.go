// Package c01 decides C01: file lock — at most one holder at any instant.
package c01

import (
	"context"
	"encoding/json"
	"fmt"
	"os"
	"path/filepath"
	"strings"
	"sync"
	"sync/atomic"
	"testing"
	"time"

	"pgregory.net/rapid"

	"github.com/ARM-software/golang-utils/utils/filesystem"

	"verif/internal/baton"
	"verif/internal/ev"
	"verif/internal/fsbox"
	"verif/internal/fsx"
)

const prop = "C01"

func TestMain(m *testing.M) { ev.Main(m) }

type Step struct {
	Op  string `json:"op"` // trylock | lock | lockwithtimeout | hold | unlock | releaseifstale | die | age
	Arg int    `json:"arg,omitempty"`
}

type Contender struct {
	Override bool   `json:"override_stale_lock"`
	Program  []Step `json:"program"`
}

type Case struct {
	Backend    string      `json:"backend"`
	Contenders []Contender `json:"contenders"`
	Schedule   [][]int     `json:"schedule"` // priority lists, one per grant (cycled)
	// AssertKnown disables the classification of the two listed protocol races as known findings (set by their replays only)
	AssertKnown bool `json:"assert_known,omitempty"`
	// MissingDir: the directory to lock does not exist (every acquisition may then fail, but no two may succeed)
	MissingDir bool `json:"directory_to_lock_missing,omitempty"`
	// HBDelaysMs: the background heart-beat writers are part of the interleaving too. The n-th time stamp (chtimes) set by
	// any heart-beat writer is held up for HBDelaysMs[n mod len] milliseconds (at most 15: a heart-beat keeps running every
	// period), so that the last operations of a previous holder's writer can land after the next acquisition.
	HBDelaysMs []int `json:"heartbeat_stamp_delays_ms,omitempty"`
	// LateWriterMs: operations still issued by the heart-beat writer of a contender that has begun to release (the writer
	// stops asynchronously) are held up that long: they land on whatever stands at the lock's path by then
	LateWriterMs int `json:"late_writer_ms,omitempty"`
}

const lockID = "L"

// ---- run-time state ----------------------------------------------------------------------------------------------------

type actor struct {
	idx             int
	name            string
	client          *fsx.Client
	fs              filesystem.FS
	lock            filesystem.ILock
	holding         bool
	dead            bool
	inCall          string // API call in progress
	callSeq         int64  // backend sequence number when the call began
	removes         int    // successful removals of the lock directory within the call
	firstRm         int64
	heldAtCallStart bool
	sawOldStamp     bool // within the current call: a stat was served with a stamp two periods old
	settingUp       atomic.Bool // created the lock directory, heart-beat not started yet
	acquiredAt      time.Time
	createdAt       time.Time // when this contender's mkdir created the lock directory
	lastBeat        time.Time
	maxBeatGap      time.Duration
}

type world struct {
	mu        sync.Mutex
	c         *Case
	box       *fsbox.Box
	lockDir   string
	hbSuffix  string
	actors    []*actor
	owner     int   // actor whose mkdir created the current lock directory (-1 none)
	// lastEventEnd: completion (unix nanos) of the newest creation / removal of the lock directory recorded so far
	lastEventEnd int64
	outOfOrder   bool
	ownerSeq  int64 // sequence number of that mkdir
	seq       atomic.Int64
	known     string // a listed protocol race happened: the rest of the history is not judged
	violation string
	history   []string
	preempted bool // a grant went to another client between two operations of one API call
	contended int  // acquire attempts made while the lock directory existed
	lastGrant string
	t0        time.Time
	starved   bool
}

func (w *world) logf(format string, a ...any) {
	if len(w.history) < 1500 {
		w.history = append(w.history, fmt.Sprintf(format, a...))
	}
}

// Between the creation of the lock directory and the start of its heart-beat a contender must not be held back for
// long: parking it there for more than two periods of REAL time would make its fresh lock look abandoned (a pause of the
// process, not an interleaving). The coordinator therefore lets at most twelve foreign operations in while a contender
// is in that window (enough to observe the directory without a heart-beat file) and then lets it finish.
func (w *world) unparked(op *fsx.Op) bool {
	return w.isHeartbeat(op)
}

// settingUpClient names the contender (if any) that has created the lock directory and not yet started its heart-beat.
func (w *world) settingUpClient() string {
	for _, a := range w.actors {
		if a.settingUp.Load() {
			return a.name
		}
	}
	return ""
}

func (w *world) isHeartbeatPath(p string) bool {
	return strings.HasSuffix(p, ".lock") && strings.HasPrefix(p, w.lockDir+string(filepath.Separator))
}

func (w *world) isHeartbeat(op *fsx.Op) bool {
	if !strings.HasSuffix(op.Path, ".lock") || !strings.HasPrefix(op.Path, w.lockDir+string(filepath.Separator)) {
		return false
	}
	switch op.Kind {
	case "openfile", "write", "writestring", "chtimes", "sync", "truncate", "create":
		return true
	case "close":
		return true
	}
	return false
}

func (w *world) live(a *actor) bool { return !a.dead }

// after is called for every backend operation once it was executed.
func (w *world) after(op *fsx.Op) {
	if w.isHeartbeat(op) {
		if op.Kind == "chtimes" {
			w.mu.Lock()
			w.logf("[%dms] heart-beat of %s completed (%s)", time.Since(w.t0).Milliseconds(), op.Client, op.Err)
			for _, a := range w.actors {
				if a.name == op.Client && op.Err == "" {
					now := time.Now()
					if !a.lastBeat.IsZero() {
						if g := now.Sub(a.lastBeat); g > a.maxBeatGap {
							a.maxBeatGap = g
						}
					} else if !a.createdAt.IsZero() {
						// the first sign of life after the creation of the directory counts as a gap too: a first heart-beat
						// that took more than two periods to appear made the lock legitimately look abandoned meanwhile
						if g := now.Sub(a.createdAt); g > a.maxBeatGap {
							a.maxBeatGap = g
						}
					}
					a.lastBeat = now
				}
			}
			w.mu.Unlock()
		}
		return
	}
	if strings.HasSuffix(op.Path, ".lock") && op.Kind == "stat" {
		w.mu.Lock()
		w.logf("[%dms] %s stats the heart-beat file (%s)", time.Since(w.t0).Milliseconds(), op.Client, op.Err)
		w.mu.Unlock()
	}
	// evidence of staleness seen by a contender within its current call: a sign of life (heart-beat file, or the lock
	// directory itself) whose stamp is about two periods old or more
	if op.Kind == "stat" && op.Err == "" && op.ModTime != 0 && (op.Path == w.lockDir || w.isHeartbeatPath(op.Path)) {
		if time.Unix(0, op.End).Sub(time.Unix(0, op.ModTime)) > 90*time.Millisecond {
			w.mu.Lock()
			for _, a := range w.actors {
				if a.name == op.Client {
					a.sawOldStamp = true
				}
			}
			w.mu.Unlock()
		}
	}
	if op.Err != "" {
		return
	}
	if op.Path != w.lockDir {
		return
	}
	w.mu.Lock()
	defer w.mu.Unlock()
	var a *actor
	for _, x := range w.actors {
		if x.name == op.Client {
			a = x
		}
	}
	if a == nil {
		return
	}
	// Creations and removals are recorded when their completion is reported, by goroutines of this process: on a busy
	// machine a report can be overtaken by the report of an operation that completed later. The book-keeping of who owns the
	// directory is then wrong (a creation recorded after the removal that destroyed it): such a history is not judged.
	if op.End < w.lastEventEnd {
		w.outOfOrder = true
	}
	if op.End > w.lastEventEnd {
		w.lastEventEnd = op.End
	}
	switch op.Kind {
	case "mkdir":
		a.settingUp.Store(true)
		a.createdAt = time.Now()
		w.owner, w.ownerSeq = a.idx, op.Seq
		w.logf("#%d %s created the lock directory", op.Seq, a.name)
	case "remove", "removeall":
		a.removes++
		if a.removes == 1 {
			a.firstRm = op.Seq
		}
		w.logf("#%d %s removed the lock directory (inside %s, removal %d of the call)", op.Seq, a.name, a.inCall, a.removes)
		if w.owner >= 0 && w.owner != a.idx {
			o := w.actors[w.owner]
			ownerBusyReleasing := o.inCall == "unlock"
			// the property's precondition: "as long as the holder's heartbeat keeps running". Under machine load a
			// heart-beat write can take longer than two periods; the lock then legitimately looks stale.
			starved := !o.lastBeat.IsZero() && (time.Since(o.lastBeat) > 70*time.Millisecond || o.maxBeatGap > 70*time.Millisecond)
			if o.lastBeat.IsZero() && !o.acquiredAt.IsZero() && time.Since(o.acquiredAt) > 70*time.Millisecond {
				starved = true
			}
			if starved && w.live(o) && !ownerBusyReleasing && w.known == "" {
				w.starved = true
				w.logf("the heart-beat of %s did not run every period (last %v ago, largest gap %v): not judged", o.name, time.Since(o.lastBeat).Round(time.Millisecond), o.maxBeatGap.Round(time.Millisecond))
				w.known = "starved"
			}
			if w.live(o) && !ownerBusyReleasing && w.known == "" {
				msg := fmt.Sprintf("%s (inside %s) removed the lock directory created by %s at #%d, which is alive and has not begun to release", a.name, a.inCall, o.name, w.ownerSeq)
				// The two listed protocol races share one signature: the directory removed was created AFTER the remover's
				// own API call began, i.e. the remover decided on an older generation of the lock (the protocol has no
				// ownership token, a removal goes by path). KF-a: the remover is a holder releasing its own lock (its
				// post-removal existence check sees the successor and the retry removes it, or its final rmdir lands after
				// the successor's mkdir); KF-b: the remover is on the stale-take-over path.
				switch {
				case !w.c.AssertKnown && w.ownerSeq > a.callSeq && a.heldAtCallStart:
					w.known = "C01-KF-a"
					w.logf("KNOWN C01-KF-a: %s", msg)
				case !w.c.AssertKnown && w.ownerSeq > a.callSeq && a.sawOldStamp:
					// (the remover did see a stale generation: a take-over decided without any stamp two periods old is no KF-b)
					w.known = "C01-KF-b"
					w.logf("KNOWN C01-KF-b: %s", msg)
				default:
					if w.violation == "" {
						w.violation = "a release destroyed a lock that somebody else acquired afterwards: " + msg
					}
				}
			}
		}
		w.owner = -1
	}
}

func (w *world) begin(a *actor, call string) {
	w.mu.Lock()
	a.inCall, a.callSeq, a.removes, a.firstRm, a.heldAtCallStart = call, w.box.Backend.OpCount(), 0, 0, a.holding
	a.sawOldStamp = false
	a.callSeq = w.seq.Load()
	if call == "unlock" {
		a.holding = false // the holder has begun to release
	}
	w.logf("%s begins %s", a.name, call)
	w.mu.Unlock()
}

func (w *world) end(a *actor, call string, err error) {
	w.mu.Lock()
	defer w.mu.Unlock()
	a.inCall = ""
	a.settingUp.Store(false)
	w.logf("%s ends %s: %v", a.name, call, err)
	if err != nil && w.owner == a.idx && (call == "trylock" || call == "lock" || call == "lockwithtimeout") {
		// the acquire call failed (e.g. LockWithTimeout timed out at the very moment its Lock succeeded) although it had
		// created the directory: nobody holds that lock, it is an orphan that will go stale
		w.owner = -1
		w.logf("the lock directory created by %s is an orphan", a.name)
	}
	if err == nil && (call == "trylock" || call == "lock" || call == "lockwithtimeout") {
		for _, o := range w.actors {
			if o != a && o.holding && w.live(o) && w.known == "" && w.violation == "" {
				w.violation = fmt.Sprintf("%s acquired the lock (%s returned nil) while %s holds it and has not begun to release", a.name, call, o.name)
			}
		}
		a.holding = true
		a.acquiredAt = time.Now()
		a.lastBeat, a.maxBeatGap = time.Time{}, 0
	}
}

// ---- one history ------------------------------------------------------------------------------------------------------------

func runCase(t ev.T, test string, c Case) (known string) {
	box := fsbox.New(c.Backend)
	defer box.Close()
	dir := box.Path("locks")
	if !c.MissingDir {
		_ = box.Raw.MkdirAll(dir, 0o755)
	}
	_ = box.Raw.MkdirAll(box.Path("elsewhere"), 0o755)
	w := &world{c: &c, box: box, lockDir: filepath.Join(dir, filesystem.LockFilePrefix+"-"+lockID), owner: -1, t0: time.Now()}
	sched := baton.New(box.Backend, w.unparked)
	if len(c.HBDelaysMs) > 0 || c.LateWriterMs > 0 {
		parkOrNot := box.Backend.Before
		var stamps atomic.Int64
		box.Backend.Before = func(op *fsx.Op) {
			if c.LateWriterMs > 0 && (op.Kind == "chtimes" || op.Kind == "openfile") && w.isHeartbeat(op) {
				late := false
				w.mu.Lock()
				for _, a := range w.actors {
					if a.name == op.Client && !a.holding && (a.inCall == "" || a.inCall == "unlock") {
						late = true
					}
				}
				w.mu.Unlock()
				if late {
					ev.Class("an operation of a released holder's heart-beat writer was held up")
					time.Sleep(time.Duration(c.LateWriterMs) * time.Millisecond)
				}
			} else if len(c.HBDelaysMs) > 0 && op.Kind == "chtimes" && w.isHeartbeat(op) {
				if d := c.HBDelaysMs[int(stamps.Add(1)-1)%len(c.HBDelaysMs)]; d > 0 {
					time.Sleep(time.Duration(d) * time.Millisecond)
				}
			}
			parkOrNot(op)
		}
	}
	box.Backend.KeepOps(false)
	sched.OnAfter = func(op *fsx.Op) {
		w.seq.Store(op.Seq)
		w.after(op)
	}
	for i, cc := range c.Contenders {
		name := fmt.Sprintf("c%d", i+1)
		cl, fs := box.NewClient(name)
		vfs, ok := fs.(*filesystem.VFS)
		if !ok {
			t.Fatalf("HARNESS: not a *VFS")
		}
		w.actors = append(w.actors, &actor{idx: i, name: name, client: cl, fs: fs, lock: filesystem.NewGenericRemoteLockFile(vfs, lockID, dir, cc.Override)})
	}
	life, endLife := context.WithCancel(context.Background())
	defer endLife()
	// stall monitor: the property presupposes that the holder's heart-beat runs every period. If the whole process is
	// held up (machine overloaded) a live lock legitimately goes stale: such histories are inconclusive, never violations.
	var maxGap atomic.Int64
	go func() {
		last := time.Now()
		for life.Err() == nil {
			time.Sleep(2 * time.Millisecond)
			now := time.Now()
			if g := int64(now.Sub(last)); g > maxGap.Load() {
				maxGap.Store(g)
			}
			last = now
		}
	}()
	var wg sync.WaitGroup
	for i := range w.actors {
		a := w.actors[i]
		prog := c.Contenders[i].Program
		wg.Add(1)
		sched.Go(a.name, func() {
			defer wg.Done()
			// the heart-beat of a lock lives as long as the context given to the acquire call: one long-lived context per
			// contender (cancelled when the history is over), never a per-call one
			for _, st := range prog {
				if a.dead {
					return
				}
				ctx, cancel := context.WithCancel(life)
				switch st.Op {
				case "trylock", "lock", "lockwithtimeout":
					if a.holding {
						cancel()
						continue
					}
					w.begin(a, st.Op)
					var err error
					diedAfterAcquire := false
					switch st.Op {
					case "trylock":
						err = a.lock.TryLock(life)
					case "lock":
						// bounded wait: the context is cancelled only if Lock is still waiting at the deadline
						lctx, lcancel := context.WithCancel(life)
						timer := time.AfterFunc(time.Duration(40+st.Arg)*time.Millisecond, lcancel)
						err = a.lock.Lock(lctx)
						timer.Stop()
						if err != nil {
							lcancel()
						} else if lctx.Err() != nil {
							// the deadline fired at the very moment Lock succeeded: the heart-beat (tied to that context) is
							// already stopped, which is what a holder dying right after its acquire looks like
							diedAfterAcquire = true
						}
					default:
						err = a.lock.LockWithTimeout(life, time.Duration(5+st.Arg)*time.Millisecond)
					}
					w.end(a, st.Op, err)
					if diedAfterAcquire {
						w.mu.Lock()
						a.dead = true
						w.logf("%s: heart-beat context ended at the moment of the acquire: counts as dying while holding", a.name)
						w.mu.Unlock()
						a.client.Revoke()
					}
				case "hold":
					for k := 0; k < st.Arg; k++ {
						_, _ = a.fs.Stat(box.Path("elsewhere"))
					}
				case "unlock":
					if a.holding {
						w.begin(a, "unlock")
						err := a.lock.Unlock(ctx)
						w.end(a, "unlock", err)
					}
				case "releaseifstale":
					if !a.holding {
						w.begin(a, "releaseifstale")
						err := a.lock.ReleaseIfStale(ctx)
						w.end(a, "releaseifstale", err)
					}
				case "die":
					if a.holding {
						w.mu.Lock()
						a.dead = true
						w.logf("%s dies while holding", a.name)
						w.mu.Unlock()
						a.client.Revoke()
					}
				case "age":
					// time passes for a DEAD holder only: back-date its lock through the raw backend
					w.mu.Lock()
					deadHolder := w.owner >= 0 && w.actors[w.owner].dead
					w.mu.Unlock()
					if deadHolder {
						old := time.Now().Add(-time.Second)
						_ = box.Raw.Chtimes(w.lockDir, old, old)
						hb := filepath.Join(w.lockDir, lockID+".lock")
						if _, err := box.Raw.Stat(hb); err == nil {
							_ = box.Raw.Chtimes(hb, old, old)
						}
						w.mu.Lock()
						w.logf("%s ages the dead holder's lock", a.name)
						w.mu.Unlock()
					}
				}
				cancel()
			}
		})
	}
	names := make([]string, len(w.actors))
	for i, a := range w.actors {
		names[i] = a.name
	}
	// the coordinator
	prev := ""
	windowGrants := 0
	for g := 0; g < 4000 && !sched.AllDone(); g++ {
		perm := c.Schedule[g%len(c.Schedule)]
		prio := make([]string, 0, len(perm))
		for _, p := range perm {
			if p < len(names) {
				prio = append(prio, names[p])
			}
		}
		su := w.settingUpClient()
		if su == "" {
			windowGrants = 0
		}
		got := sched.Step(prio, func(client string, _ *fsx.Op) bool {
			return su == "" || client == su || windowGrants < 12
		}, 300*time.Millisecond)
		if su != "" && got != "" && got != su {
			windowGrants++
		}
		if got == "" {
			continue
		}
		w.mu.Lock()
		if prev != "" && got != prev {
			for _, a := range w.actors {
				if a.name == prev && a.inCall != "" {
					w.preempted = true
				}
			}
		}
		if op := sched.Peek(got); op != nil && op.Kind == "mkdir" && op.Path == w.lockDir && w.owner >= 0 {
			w.contended++
		}
		w.mu.Unlock()
		prev = got
	}
	sched.ReleaseAll()
	doneCh := make(chan struct{})
	go func() { wg.Wait(); close(doneCh) }()
	select {
	case <-doneCh:
	case <-time.After(20 * time.Second):
		ev.Inconclusive("history did not finish within 20 s")
	}
	// stop the heart-beats of whoever still holds
	for _, a := range w.actors {
		if a.holding && !a.dead {
			ctx, cancel := context.WithTimeout(context.Background(), time.Second)
			_ = a.lock.Unlock(ctx)
			cancel()
		}
		a.client.Revoke()
	}
	w.mu.Lock()
	defer w.mu.Unlock()
	if os.Getenv("C01_TRACE") != "" {
		fmt.Println("TRACE " + strings.Join(w.history, "\nTRACE "))
	}
	if w.preempted {
		ev.Class("preempted-inside-a-call")
	}
	if w.contended > 0 {
		ev.Class("acquire-attempt-on-existing-lock")
	}
	if w.starved {
		ev.Inconclusive("a holder's heart-beat was held up for more than a period (machine load): history not judged")
		if w.known == "starved" {
			w.known = ""
		}
	}
	if w.violation != "" && w.outOfOrder {
		ev.Inconclusive("creations / removals of the lock directory were reported out of order (machine load): history not judged")
		return w.known
	}
	if w.violation != "" && time.Duration(maxGap.Load()) > 30*time.Millisecond {
		ev.Inconclusive("process stalled during the history (heart-beats could not run every period)")
		return w.known
	}
	ev.MetricMax("max_scheduling_gap_ms", float64(time.Duration(maxGap.Load()).Milliseconds()))
	if w.violation != "" {
		h := w.history
		if len(h) > 160 {
			h = h[len(h)-160:]
		}
		ev.Fail(t, prop, test, c, "%s; history: %s", w.violation, strings.Join(h, " | "))
	}
	return w.known
}

// ---- generator ------------------------------------------------------------------------------------------------------------------

func genCase(t *rapid.T) Case {
	c := Case{Backend: rapid.SampledFrom([]string{"mem", "mem", "os"}).Draw(t, "backend")}
	n := rapid.IntRange(2, 4).Draw(t, "contenders")
	if rapid.IntRange(0, 3).Draw(t, "hand-over") == 0 {
		// a hand-over: one contender acquires and releases, a second one waits for the lock and keeps it for a while, a third
		// one (with override) keeps trying; the tail of the first one's heart-beat writer is held up
		hold := func(label string, lo, hi int) Step { return Step{Op: "hold", Arg: rapid.IntRange(lo, hi).Draw(t, label)} }
		a := Contender{Program: []Step{{Op: "trylock"}, hold("a-hold", 1, 4), {Op: "unlock"}}}
		b := Contender{Override: rapid.Bool().Draw(t, "b-override"), Program: []Step{{Op: "lock", Arg: 75}, hold("b-hold1", 6, 12), hold("b-hold2", 6, 12), hold("b-hold3", 1, 12), {Op: "unlock"}}}
		cc := Contender{Override: true, Program: []Step{hold("c-wait", 1, 12)}}
		for k := 0; k < 5; k++ {
			cc.Program = append(cc.Program, Step{Op: rapid.SampledFrom([]string{"trylock", "trylock", "releaseifstale"}).Draw(t, fmt.Sprintf("c-op%d", k))}, hold(fmt.Sprintf("c-hold%d", k), 1, 6))
		}
		c.Contenders = []Contender{a, b, cc}
		c.LateWriterMs = rapid.SampledFrom([]int{5, 20, 50, 80, 120, 160}).Draw(t, "late-writer-ms")
		m := rapid.IntRange(8, 60).Draw(t, "schedule-len")
		for i := 0; i < m; i++ {
			c.Schedule = append(c.Schedule, rapid.Permutation([]int{0, 1, 2}).Draw(t, fmt.Sprintf("prio%d", i)))
		}
		return c
	}
	for i := 0; i < n; i++ {
		cc := Contender{Override: rapid.Bool().Draw(t, fmt.Sprintf("override%d", i))}
		steps := rapid.IntRange(1, 6).Draw(t, fmt.Sprintf("steps%d", i))
		for s := 0; s < steps; s++ {
			op := rapid.SampledFrom([]string{"trylock", "trylock", "trylock", "lock", "lockwithtimeout", "hold", "unlock", "unlock", "releaseifstale", "die", "age"}).Draw(t, fmt.Sprintf("op%d-%d", i, s))
			st := Step{Op: op}
			switch op {
			case "hold":
				st.Arg = rapid.IntRange(1, 12).Draw(t, fmt.Sprintf("hold%d-%d", i, s))
			case "lock", "lockwithtimeout":
				st.Arg = rapid.IntRange(0, 75).Draw(t, fmt.Sprintf("ms%d-%d", i, s))
			}
			cc.Program = append(cc.Program, st)
		}
		c.Contenders = append(c.Contenders, cc)
	}
	base := make([]int, n)
	for i := range base {
		base[i] = i
	}
	c.MissingDir = rapid.IntRange(0, 9).Draw(t, "missing-dir") == 0
	if rapid.IntRange(0, 2).Draw(t, "slow-stamps") == 0 {
		c.HBDelaysMs = rapid.SliceOfN(rapid.SampledFrom([]int{0, 0, 0, 3, 8, 15}), 1, 6).Draw(t, "stamp-delays")
	} else if rapid.IntRange(0, 1).Draw(t, "late-writer") == 0 {
		c.LateWriterMs = rapid.SampledFrom([]int{5, 20, 50, 80, 120, 160}).Draw(t, "late-writer-ms")
	}
	m := rapid.IntRange(8, 60).Draw(t, "schedule-len")
	for i := 0; i < m; i++ {
		c.Schedule = append(c.Schedule, rapid.Permutation(base).Draw(t, fmt.Sprintf("prio%d", i)))
	}
	return c
}

func replayCase(t ev.T, raw json.RawMessage) {
	var c Case
	if err := json.Unmarshal(raw, &c); err != nil {
		t.Fatalf("HARNESS: %v", err)
	}
	for i := 0; i < 3; i++ {
		runCase(t, "TestLockHistories", c)
	}
}

func init() { ev.RegisterReplay("TestLockHistories", replayCase) }

func TestReplay(t *testing.T)      { ev.RunReplay(t) }
func TestRegressions(t *testing.T) { ev.Regressions(t, prop) }

func TestLockHistories(t *testing.T) {
	rapid.Check(t, func(rt *rapid.T) {
		c := genCase(rt)
		key, _ := json.Marshal(c)
		acquirers := 0
		for _, cc := range c.Contenders {
			for _, s := range cc.Program {
				if s.Op == "trylock" || s.Op == "lock" || s.Op == "lockwithtimeout" {
					acquirers++
					break
				}
			}
		}
		ev.Case(string(key), acquirers >= 2, "histories/"+c.Backend, c)
		if k := runCase(rt, "TestLockHistories", c); k != "" {
			ev.Exclude(k + " protocol race (rest of the history not judged)")
			ev.Known(k, "the listed protocol race occurred in a generated history")
			if d := os.Getenv("C01_DUMP_KF"); d != "" {
				c.AssertKnown = true
				b, _ := json.Marshal(c)
				_ = os.WriteFile(filepath.Join(d, fmt.Sprintf("%s-%d.json", k, time.Now().UnixNano())), b, 0o644)
			}
		}
	})
}

// ---- a live holder whose heart-beats are slow to be written --------------------------------------------------------------

// FreshCase: the holder acquires; the creation of its first heart-beat file (or, with EveryBeat, of every heart-beat)
// is held up for DelayMs (a loaded disk; well below a period, so the heart-beat "keeps running" in the sense of the
// property); meanwhile contenders try to take the lock over, to release it as stale, or ask whether it is stale.
type FreshCase struct {
	Backend    string   `json:"backend"`
	Acquire    string   `json:"acquire"` // trylock | lock | lockwithtimeout
	DelayMs    int      `json:"first_heartbeat_delay_ms"`
	EveryBeat  bool     `json:"every_heartbeat_delayed,omitempty"`
	HoldMs     int      `json:"hold_ms,omitempty"` // how long the contenders keep trying (default: 85 ms, the fresh-lock window)
	Contenders []string `json:"contenders"`        // trylock-override | releaseifstale | isstale | lock-override
	CadenceMs  int      `json:"cadence_ms"`
}

func checkFresh(t ev.T, test string, c FreshCase) {
	box := fsbox.New(c.Backend)
	defer box.Close()
	dir := box.Path("locks")
	_ = box.Raw.MkdirAll(dir, 0o755)
	lockDir := filepath.Join(dir, filesystem.LockFilePrefix+"-"+lockID)
	var delayed atomic.Bool
	box.Backend.Before = func(op *fsx.Op) {
		if op.Client == "holder" && op.Kind == "openfile" && strings.HasPrefix(op.Path, lockDir+string(filepath.Separator)) && (c.EveryBeat || delayed.CompareAndSwap(false, true)) {
			time.Sleep(time.Duration(c.DelayMs) * time.Millisecond)
		}
	}
	// signs of life of the holder: completion of the time stamp of the lock directory (acquisition) and of each heart-beat
	var smu sync.Mutex
	type sign struct{ visible, stamp time.Time }
	var signs []sign
	var holderDid time.Time // completion of the holder's newest operation on the lock other than a time stamp
	// the first removal of the holder's lock directory by somebody else is the verdict that counts: whatever the other
	// contenders obtain afterwards (a free lock ...) is its consequence, not a verdict of their own
	var removedBy string
	var removedAt, removerBegan time.Time
	beganOf := map[string]time.Time{} // per contender: when its current call began
	type traced struct {
		start, end int64
		client, l  string
	}
	var trace []traced // what the backend served, for the failure message
	var fName string
	var fBegan, fEnd time.Time
	var t0 time.Time
	box.Backend.After = func(op *fsx.Op) {
		if strings.HasPrefix(op.Path, lockDir) {
			ms := func(ns int64) string {
				return fmt.Sprintf("%.1f", float64(ns-t0.UnixNano())/1e6)
			}
			l := fmt.Sprintf("[%s..%s] %s %s %s", ms(op.Start), ms(op.End), op.Client, op.Kind, strings.TrimPrefix(op.Path, lockDir))
			if op.ModTime != 0 {
				l += " mtime=" + ms(op.ModTime)
			}
			if op.Err != "" {
				l += " err"
			}
			smu.Lock()
			trace = append(trace, traced{op.Start, op.End, op.Client, l})
			smu.Unlock()
		}
		if op.Client == "holder" && op.Kind == "chtimes" && op.Err == "" && strings.HasPrefix(op.Path, lockDir) {
			// a sign of life is as old as the stamp it carries (on a stalling machine the holder may be held up between reading
			// the clock and setting the stamp, which observers then see as old as it says), and it is there for observers to see
			// from the completion of the operation only: a call that began between the two may have been served the older stamp
			// The stamp cannot be excused for being older than the completion of what the holder did just before (the write of
			// the heart-beat, the creation of the directory): a stamp read before a slow write makes a live holder look older than it is.
			at := time.Unix(0, op.End)
			st := at
			if x := time.Unix(0, op.ModTime); op.ModTime != 0 && x.Before(at) {
				st = x
			}
			smu.Lock()
			if st.Before(holderDid) {
				st = holderDid
			}
			signs = append(signs, sign{visible: at, stamp: st})
			smu.Unlock()
		} else if op.Client == "holder" && strings.HasPrefix(op.Path, lockDir) {
			smu.Lock()
			if e := time.Unix(0, op.End); e.After(holderDid) {
				holderDid = e
			}
			smu.Unlock()
		}
		if op.Client != "holder" && (op.Kind == "remove" || op.Kind == "removeall") && (op.Path == lockDir || strings.HasPrefix(op.Path, lockDir+string(filepath.Separator))) && op.Err == "" {
			smu.Lock()
			if removedBy == "" {
				removedBy, removedAt, removerBegan = op.Client, time.Unix(0, op.End), beganOf[op.Client]
			}
			smu.Unlock()
		}
	}
	tracedAround := func() string {
		smu.Lock()
		defer smu.Unlock()
		var tr []string
		for _, x := range trace {
			if fName != "" && x.end >= fBegan.Add(-120*time.Millisecond).UnixNano() && x.start <= fEnd.UnixNano() {
				tr = append(tr, x.l)
			}
		}
		return strings.Join(tr, " | ")
	}
	lastSignBefore := func(x time.Time, fallback time.Time) time.Time {
		smu.Lock()
		defer smu.Unlock()
		r := fallback
		for _, s := range signs {
			if !s.visible.After(x) && s.stamp.After(r) {
				r = s.stamp
			}
		}
		return r
	}
	_, hfs := box.NewClient("holder")
	holder := filesystem.NewGenericRemoteLockFile(hfs.(*filesystem.VFS), lockID, dir, false)
	life, endLife := context.WithCancel(context.Background())
	defer endLife()
	t0 = time.Now() // before the lock directory exists: every age computed from it over-estimates the true age
	var herr error
	switch c.Acquire {
	case "lock":
		herr = holder.Lock(life)
	case "lockwithtimeout":
		herr = holder.LockWithTimeout(life, 2*time.Second)
	default:
		herr = holder.TryLock(life)
	}
	if herr != nil {
		ev.Fail(t, prop, test, c, "the holder could not acquire a free lock: %v", herr)
	}
	// two periods are 100 ms: a verdict returned when the newest sign of life completed before the call began was (at most)
	// 85 ms old cannot be a legitimate one
	const limit = 85 * time.Millisecond
	hold := limit
	if c.HoldMs > 0 {
		hold = time.Duration(c.HoldMs) * time.Millisecond
	}
	var mu sync.Mutex
	var finding string
	late, consequences := 0, 0
	var wg sync.WaitGroup
	stop := make(chan struct{})
	for i, kind := range c.Contenders {
		name := fmt.Sprintf("c%d", i+1)
		_, cfs := box.NewClient(name)
		lock := filesystem.NewGenericRemoteLockFile(cfs.(*filesystem.VFS), lockID, dir, strings.HasSuffix(kind, "-override"))
		wg.Add(1)
		go func(kind, name string) {
			defer wg.Done()
			for {
				select {
				case <-stop:
					return
				case <-time.After(time.Duration(c.CadenceMs) * time.Millisecond):
				}
				what := ""
				began := time.Now()
				smu.Lock()
				beganOf[name] = began
				smu.Unlock()
				octx, ocancel := context.WithTimeout(context.Background(), 20*time.Millisecond)
				switch kind {
				case "isstale":
					if lock.IsStale() {
						what = "IsStale() returned true"
					}
				case "releaseifstale":
					_ = lock.ReleaseIfStale(octx)
					if _, err := box.Raw.Stat(lockDir); err != nil {
						what = "ReleaseIfStale() removed the lock directory"
					}
				case "lock-override":
					if err := lock.Lock(octx); err == nil {
						what = "Lock() (override) acquired the lock"
					}
				default:
					if err := lock.TryLock(octx); err == nil {
						what = "TryLock() (override) acquired the lock"
					}
				}
				ocancel()
				if what != "" {
					age := time.Since(lastSignBefore(began, t0))
					smu.Lock()
					rb := removedBy
					smu.Unlock()
					mu.Lock()
					if rb != "" {
						// the holder's lock has been dismantled (by somebody else, or by this contender in this or an earlier call): the
						// verdict is that first removal, judged below by its own date; this result is its consequence
						consequences++
					} else if age <= limit {
						if finding == "" {
							fName, fBegan, fEnd = name, began, time.Now()
							finding = fmt.Sprintf("%s: %s although the holder's newest sign of life (completed before that call began) was at most %v old when the call returned (heart-beat files held up for %d ms; two periods = 100ms)", name, what, age.Round(time.Millisecond), c.DelayMs)
						}
					} else {
						late++
					}
					mu.Unlock()
					return
				}
			}
		}(kind, name)
	}
	time.Sleep(time.Until(t0.Add(hold)))
	close(stop)
	wg.Wait()
	mu.Lock()
	f := finding
	mu.Unlock()
	if f != "" {
		ev.Fail(t, prop, test, c, "%s; the holder is alive and has not begun to release; the call began at %.1f; served to the two (ms since the start of the case): %s", f, float64(fBegan.Sub(t0))/1e6, tracedAround())
	}
	if late > 0 {
		ev.Class("stale verdict on a holder whose signs of life were more than 85 ms apart (machine load; not judged)")
	}
	if consequences > 0 {
		ev.Class("result obtained after somebody else had removed the holder's lock (consequence, not judged)")
	}
	// a contender that removed the lock without reporting anything (a take-over that lost the race for the free lock) is
	// judged by its removal too
	smu.Lock()
	rb, ra, rbeg := removedBy, removedAt, removerBegan
	smu.Unlock()
	if rb != "" && f == "" && !rbeg.IsZero() {
		if age := ra.Sub(lastSignBefore(rbeg, t0)); age <= limit {
			fName, fBegan, fEnd = rb, rbeg, ra
			ev.Fail(t, prop, test, c, "%s removed the lock directory (or what is in it) although the holder's newest sign of life (completed before that call began) was at most %v old at that moment (heart-beat files held up for %d ms; two periods = 100ms); the holder is alive and has not begun to release; the call began at %.1f; served (ms since the start of the case): %s", rb, age.Round(time.Millisecond), c.DelayMs, float64(rbeg.Sub(t0))/1e6, tracedAround())
		} else {
			ev.Class("stale verdict on a holder whose signs of life were more than 85 ms apart (machine load; not judged)")
		}
	}
	uctx, ucancel := context.WithTimeout(context.Background(), 3*time.Second)
	_ = holder.Unlock(uctx)
	ucancel()
}

func TestFreshLock(t *testing.T) {
	rapid.Check(t, func(rt *rapid.T) {
		// the lock-based protocol is documented for real filesystems; the in-memory backend is used by the library's own tests
		c := FreshCase{Backend: rapid.SampledFrom([]string{"os", "os", "mem"}).Draw(rt, "backend"), Acquire: rapid.SampledFrom([]string{"trylock", "lock", "lockwithtimeout"}).Draw(rt, "acquire")}
		c.DelayMs = rapid.SampledFrom([]int{0, 5, 15, 25, 35, 45, 60, 80}).Draw(rt, "delay")
		c.CadenceMs = rapid.IntRange(1, 9).Draw(rt, "cadence")
		c.Contenders = rapid.SliceOfN(rapid.SampledFrom([]string{"trylock-override", "trylock-override", "releaseifstale", "isstale", "lock-override"}), 1, 3).Draw(rt, "contenders")
		cls := "fresh-lock/"
		if rapid.IntRange(0, 2).Draw(rt, "slow-disk") == 0 {
			// every heart-beat write is slow (but far from a period): the holder stays alive for several periods
			c.EveryBeat, c.DelayMs, c.HoldMs = true, rapid.SampledFrom([]int{10, 20, 30}).Draw(rt, "beat-delay"), rapid.SampledFrom([]int{250, 400}).Draw(rt, "hold")
			cls = "slow-heart-beats/"
		}
		k, _ := json.Marshal(c)
		ev.Case(string(k), c.DelayMs >= 15, cls+c.Backend, c)
		checkFresh(rt, "TestFreshLock", c)
	})
}

func init() {
	ev.RegisterReplay("TestFreshLock", func(t ev.T, raw json.RawMessage) {
		var c FreshCase
		if err := json.Unmarshal(raw, &c); err != nil {
			t.Fatalf("HARNESS: %v", err)
		}
		checkFresh(t, "TestFreshLock", c)
	})
}
