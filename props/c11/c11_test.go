// Package c11 decides C11: error kinds survive wrapping and serialisation.
package c11

import (
	"context"
	"encoding/json"
	"errors"
	"fmt"
	"github.com/shirou/gopsutil/v4/process"
	"io"
	"io/fs"
	"os"
	"os/exec"
	"sort"
	"strings"
	"syscall"
	"testing"

	"github.com/spf13/afero"
	"pgregory.net/rapid"

	"github.com/ARM-software/golang-utils/utils/commonerrors"
	"github.com/ARM-software/golang-utils/utils/filesystem"
	"github.com/ARM-software/golang-utils/utils/proc"
	"github.com/ARM-software/golang-utils/utils/safeio"

	"verif/internal/ev"
)

const prop = "C11"

func TestMain(m *testing.M) { ev.Main(m) }

type kind struct {
	Name string
	Err  error
}

var kinds = []kind{
	{"ErrNotImplemented", commonerrors.ErrNotImplemented}, {"ErrNoExtension", commonerrors.ErrNoExtension},
	{"ErrNoLogger", commonerrors.ErrNoLogger}, {"ErrNoLoggerSource", commonerrors.ErrNoLoggerSource},
	{"ErrNoLogSource", commonerrors.ErrNoLogSource}, {"ErrUndefined", commonerrors.ErrUndefined},
	{"ErrInvalidDestination", commonerrors.ErrInvalidDestination}, {"ErrTimeout", commonerrors.ErrTimeout},
	{"ErrLocked", commonerrors.ErrLocked}, {"ErrStaleLock", commonerrors.ErrStaleLock}, {"ErrExists", commonerrors.ErrExists},
	{"ErrNotFound", commonerrors.ErrNotFound}, {"ErrUnsupported", commonerrors.ErrUnsupported},
	{"ErrUnavailable", commonerrors.ErrUnavailable}, {"ErrWrongUser", commonerrors.ErrWrongUser},
	{"ErrUnauthorised", commonerrors.ErrUnauthorised}, {"ErrUnknown", commonerrors.ErrUnknown}, {"ErrInvalid", commonerrors.ErrInvalid},
	{"ErrConflict", commonerrors.ErrConflict}, {"ErrMarshalling", commonerrors.ErrMarshalling}, {"ErrCancelled", commonerrors.ErrCancelled},
	{"ErrEmpty", commonerrors.ErrEmpty}, {"ErrUnexpected", commonerrors.ErrUnexpected}, {"ErrTooLarge", commonerrors.ErrTooLarge},
	{"ErrForbidden", commonerrors.ErrForbidden}, {"ErrCondition", commonerrors.ErrCondition}, {"ErrEOF", commonerrors.ErrEOF},
	{"ErrMalicious", commonerrors.ErrMalicious}, {"ErrOutOfRange", commonerrors.ErrOutOfRange}, {"ErrWarning", commonerrors.ErrWarning},
}

func kindIndex(name string) int {
	for i := range kinds {
		if kinds[i].Name == name {
			return i
		}
	}
	return -1
}

// kindsOf lists the kinds (of the 30) an error is recognised as, by errors.Is.
func kindsOf(err error) []string {
	var out []string
	if err == nil {
		return out
	}
	for _, k := range kinds {
		if errors.Is(err, k.Err) {
			out = append(out, k.Name)
		}
	}
	return out
}

// ---- chain description ------------------------------------------------------------------------

// Step is one constructor application. The first step of a chain is a base.
type Step struct {
	Op   string `json:"op"`             // base ops: New Newf Errorf sentinel plain ctx-cancel ctx-deadline wrapped-cancel wrapped-deadline nil ; wrap ops: WrapError WrapErrorf WrapIfNotCommonError WrapIfNotCommonErrorf
	Kind string `json:"kind,omitempty"` // kind name given to the constructor ("" = none)
	Msg  string `json:"msg"`
}

type Chain []Step

var messages = []string{"", " ", "bad", "a message", "with: colon", ": leading colon", "trailing colon:", "a:b:c", "  spaced  :  colons  ",
	"not found", "invalid", "invalid destination", "timeout", "cancelled", "already exists", "stale lock: locked", "not found: invalid: x",
	"héllo wörld", "日本語: エラー", "emoji 🙂", "100% sure", "%v %s %d", "%!v(MISSING)", "tab\tinside", "path /a/b/c.txt", "C:\\dir\\file", "quote \"q\" 'q'",
	"x=1; y=2", "warning", "warning: careful", "end of file", "unknown", "context canceled", "context deadline exceeded", "Not Found", "INVALID",
	"a very long message " + strings.Repeat("lorem ipsum ", 20), "[brackets] {braces} (parens)", "unexpected", "::", "-"}

func genMsg(t *rapid.T, label string) string {
	if rapid.IntRange(0, 99).Draw(t, label+"-long") == 0 {
		// a long single-line message (a response body, a base64 blob): around the sizes at which readers of lines give up
		n := rapid.SampledFrom([]int{4096, 32768, 40000, 65535, 65536, 70000}).Draw(t, label+"-length")
		return "blob " + strings.Repeat("x", n) + " end"
	}
	if rapid.IntRange(0, 3).Draw(t, label+"-table") > 0 {
		return rapid.SampledFrom(messages).Draw(t, label)
	}
	// free single-line text over an alphabet rich in colons, kind words and unicode
	parts := rapid.SliceOfN(rapid.SampledFrom([]string{":", " ", "a", "Z", "é", "日", "%", "not found", "invalid", "timeout", "locked", "x1", "_", ".", "🙂", "cancelled", "warning"}), 0, 8).Draw(t, label+"-parts")
	return strings.Join(parts, "")
}

func genChain(t *rapid.T, label string) Chain {
	var c Chain
	base := rapid.SampledFrom([]string{"New", "New", "Newf", "Errorf", "sentinel", "plain", "ctx-cancel", "ctx-deadline", "wrapped-cancel", "wrapped-deadline", "nil"}).Draw(t, label+"-base")
	s := Step{Op: base, Msg: genMsg(t, label+"-m0")}
	switch base {
	case "New", "Newf", "Errorf", "sentinel":
		s.Kind = kinds[rapid.IntRange(0, len(kinds)-1).Draw(t, label+"-k0")].Name
	}
	c = append(c, s)
	n := rapid.IntRange(0, 4).Draw(t, label+"-len")
	for i := 0; i < n; i++ {
		op := rapid.SampledFrom([]string{"WrapError", "WrapErrorf", "WrapIfNotCommonError", "WrapIfNotCommonErrorf"}).Draw(t, fmt.Sprintf("%s-op%d", label, i+1))
		st := Step{Op: op, Msg: genMsg(t, fmt.Sprintf("%s-m%d", label, i+1))}
		if rapid.IntRange(0, 9).Draw(t, fmt.Sprintf("%s-nokind%d", label, i+1)) > 0 {
			st.Kind = kinds[rapid.IntRange(0, len(kinds)-1).Draw(t, fmt.Sprintf("%s-k%d", label, i+1))].Name
		}
		c = append(c, st)
	}
	return c
}

func kindErr(name string) error {
	if name == "" {
		return nil
	}
	return kinds[kindIndex(name)].Err
}

// build applies the chain with the real constructors and computes, with the
// reference calculus of the documented rules, the kind the result must have ("" = no claim).
func build(c Chain) (err error, want string, ctxCause bool) {
	for i, s := range c {
		k := kindErr(s.Kind)
		switch s.Op {
		case "New":
			err, want = commonerrors.New(k, s.Msg), s.Kind
		case "Newf":
			err, want = commonerrors.Newf(k, "%v", s.Msg), s.Kind
		case "Errorf":
			err, want = commonerrors.Errorf(k, "%s", s.Msg), s.Kind
		case "sentinel":
			err, want = k, s.Kind
		case "plain":
			err, want = errors.New("plain: "+s.Msg), ""
		case "ctx-cancel":
			err, want, ctxCause = context.Canceled, "", true
		case "ctx-deadline":
			err, want, ctxCause = context.DeadlineExceeded, "", true
		case "wrapped-cancel":
			err, want, ctxCause = fmt.Errorf("op failed (%s): %w", strings.ReplaceAll(s.Msg, "%", "%%"), context.Canceled), "", true
		case "wrapped-deadline":
			err, want, ctxCause = fmt.Errorf("op failed: %w", context.DeadlineExceeded), "", true
		case "nil":
			err, want = nil, ""
		default:
			if i == 0 {
				panic("wrap op as base")
			}
			prev, prevWant := err, want
			switch s.Op {
			case "WrapError":
				err = commonerrors.WrapError(k, prev, s.Msg)
			case "WrapErrorf":
				err = commonerrors.WrapErrorf(k, prev, "%v", s.Msg)
			case "WrapIfNotCommonError":
				err = commonerrors.WrapIfNotCommonError(k, prev, s.Msg)
			case "WrapIfNotCommonErrorf":
				err = commonerrors.WrapIfNotCommonErrorf(k, prev, "%v", s.Msg)
			}
			// reference calculus
			prevIsCtx := isCtxKind(prev, prevWant)
			switch {
			case prevIsCtx != "":
				want = prevIsCtx // a cancellation / deadline cause is never reclassified
			case strings.HasPrefix(s.Op, "WrapIfNotCommonError") && s.Kind != "ErrTimeout" && s.Kind != "ErrCancelled" && prevWant != "":
				want = prevWant // a common original keeps its kind
			case s.Kind == "":
				want = "ErrUnknown"
			default:
				want = s.Kind
			}
		}
	}
	if want == "" && ctxCause && len(c) == 1 {
		// bare context errors are not library-built errors; no claim until they are wrapped
		return err, "", true
	}
	return
}

// isCtxKind tells whether a cause counts as cancellation/deadline for the wrappers:
// a context error (possibly %w-wrapped), or an error already of kind cancelled/timeout.
func isCtxKind(prev error, prevWant string) string {
	if prev == nil {
		return ""
	}
	if errors.Is(prev, context.Canceled) || prevWant == "ErrCancelled" {
		return "ErrCancelled"
	}
	if errors.Is(prev, context.DeadlineExceeded) || prevWant == "ErrTimeout" {
		return "ErrTimeout"
	}
	return ""
}

func normReason(s string) string {
	parts := strings.Split(s, ":")
	for i := range parts {
		parts[i] = strings.TrimSpace(parts[i])
	}
	return strings.TrimSpace(strings.Join(parts, ":"))
}

type Case struct {
	Chains []Chain `json:"chains"` // 1 chain = single error; >1 = errors.Join of them
	Join1  bool    `json:"join_of_one,omitempty"`
}

func (c Case) nontrivial() bool {
	for _, ch := range c.Chains {
		if len(ch) >= 2 {
			return true
		}
		for _, s := range ch {
			if strings.Contains(s.Msg, ":") {
				return true
			}
			for _, k := range kinds {
				if s.Msg != "" && strings.Contains(strings.ToLower(s.Msg), k.Err.Error()) {
					return true
				}
			}
		}
	}
	return false
}

func checkCase(t ev.T, test string, c Case) {
	ev.Guard(t, prop, test, c, func() {
		var errs []error
		var wants []string
		for _, ch := range c.Chains {
			e, want, _ := build(ch)
			// (1) recognised as the kind it was given
			if want != "" {
				if e == nil {
					ev.Fail(t, prop, test, c, "constructors returned nil for chain %+v", ch)
				}
				if !commonerrors.Any(e, kindErr(want)) || !errors.Is(e, kindErr(want)) {
					ev.Fail(t, prop, test, c, "error %q built by %+v is not recognised as %s (recognised as %v)", e, ch, want, kindsOf(e))
				}
				// a cancellation / deadline is never reclassified: it must not ALSO lose its ctx kind; and a
				// non-ctx error must not be recognised as another kind than the one it was given
				if ks := kindsOf(e); len(ks) != 1 || ks[0] != want {
					ev.Fail(t, prop, test, c, "error %q built by %+v should be of kind %s only, is recognised as %v", e, ch, want, ks)
				}
			}
			errs = append(errs, e)
			wants = append(wants, want)
		}
		var err error
		single := len(errs) == 1 && !c.Join1
		if single {
			err = errs[0]
		} else {
			err = errors.Join(errs...)
		}
		if err == nil {
			b, serr := commonerrors.SerialiseError(nil)
			if serr != nil || len(b) != 0 {
				ev.Fail(t, prop, test, c, "SerialiseError(nil) = %q, %v", b, serr)
			}
			return
		}
		// (2) serialise / deserialise keeps the kind(s)
		text, serr := commonerrors.SerialiseError(err)
		if serr != nil {
			ev.Fail(t, prop, test, c, "SerialiseError(%q) failed: %v", err, serr)
		}
		back, derr := commonerrors.DeserialiseError(text)
		if derr != nil {
			ev.Fail(t, prop, test, c, "DeserialiseError(%q) failed: %v (original %q)", text, derr, err)
		}
		if single {
			if wants[0] == "" {
				return // plain / bare context errors: no kind was given
			}
			if ks := kindsOf(back); len(ks) != 1 || ks[0] != wants[0] {
				ev.Fail(t, prop, test, c, "round trip of %q through %q gives %q recognised as %v, want kind %s", err, text, back, ks, wants[0])
			}
			// (3) same reason up to whitespace around colons — for a single constructor call, where
			// "the reason" is unambiguous: the message given
			r0, e0 := commonerrors.GetErrorReason(err)
			r1, e1 := commonerrors.GetErrorReason(back)
			if e0 != nil || e1 != nil {
				ev.Fail(t, prop, test, c, "GetErrorReason failed: %v / %v", e0, e1)
			}
			if normReason(r0) != normReason(r1) {
				if len(c.Chains[0]) == 1 {
					ev.Fail(t, prop, test, c, "reason changed by the round trip: %q -> %q (text %q)", r0, r1, text)
				}
				ev.Class("reason-changed-by-roundtrip-of-nested-chain(not asserted)")
			}
			if len(c.Chains[0]) == 1 && c.Chains[0][0].Op != "sentinel" {
				if normReason(r1) != normReason(c.Chains[0][0].Msg) {
					ev.Fail(t, prop, test, c, "reason after round trip %q differs from the message given %q", r1, c.Chains[0][0].Msg)
				}
			}
			return
		}
		// joined: same multiset of kinds
		var wantKinds []string
		for _, w := range wants {
			if w != "" {
				wantKinds = append(wantKinds, w)
			}
		}
		sort.Strings(wantKinds)
		allClaimed := len(wantKinds) == len(nonNil(errs))
		got := kindsMultiset(back)
		if allClaimed {
			if strings.Join(got, ",") != strings.Join(wantKinds, ",") {
				ev.Fail(t, prop, test, c, "round trip of the join %q through %q gives kinds %v, want %v", err, text, got, wantKinds)
			}
		} else {
			// members without a kind (plain errors) are allowed to come back as anything; every claimed kind must be there
			for _, w := range dedup(wantKinds) {
				if !errors.Is(back, kindErr(w)) {
					ev.Fail(t, prop, test, c, "round trip of the join %q through %q lost kind %s (got %v)", err, text, w, got)
				}
			}
		}
	})
}

func nonNil(errs []error) (out []error) {
	for _, e := range errs {
		if e != nil {
			out = append(out, e)
		}
	}
	return
}

func dedup(s []string) (out []string) {
	seen := map[string]bool{}
	for _, x := range s {
		if !seen[x] {
			seen[x] = true
			out = append(out, x)
		}
	}
	return
}

// kindsMultiset flattens a (possibly joined) error into the sorted multiset of kinds of its members.
func kindsMultiset(err error) []string {
	var out []string
	if err == nil {
		return out
	}
	if j, ok := err.(interface{ Unwrap() []error }); ok {
		for _, e := range j.Unwrap() {
			out = append(out, kindsMultiset(e)...)
		}
		sort.Strings(out)
		return out
	}
	out = kindsOf(err)
	sort.Strings(out)
	return out
}

func replayCase(t ev.T, raw json.RawMessage) {
	var c Case
	if err := json.Unmarshal(raw, &c); err != nil {
		t.Fatalf("HARNESS: %v", err)
	}
	checkCase(t, "TestReplay", c)
}

func init() {
	for _, n := range []string{"TestEnumerateSingles", "TestChains", "TestJoins", "TestReplay"} {
		ev.RegisterReplay(n, replayCase)
	}
	ev.RegisterReplay("TestConverters", replayConv)
}

func TestReplay(t *testing.T)      { ev.RunReplay(t) }
func TestRegressions(t *testing.T) { ev.Regressions(t, prop) }

// TestEnumerateSingles: all 30 kinds x message table x leaf constructors, and every
// two-step chain over the kinds with one fixed message: exhaustive over that table.
func TestEnumerateSingles(t *testing.T) {
	var n, nt int64
	for _, k := range kinds {
		for _, m := range messages {
			for _, op := range []string{"New", "Newf", "Errorf"} {
				c := Case{Chains: []Chain{{{Op: op, Kind: k.Name, Msg: m}}}}
				checkCase(t, "TestEnumerateSingles", c)
				n++
				if c.nontrivial() {
					nt++
				}
			}
		}
		checkCase(t, "TestEnumerateSingles", Case{Chains: []Chain{{{Op: "sentinel", Kind: k.Name}}}})
		n++
	}
	bases := []Step{{Op: "plain", Msg: "boom"}, {Op: "ctx-cancel"}, {Op: "ctx-deadline"}, {Op: "wrapped-cancel", Msg: "x"}, {Op: "wrapped-deadline"}, {Op: "nil"}}
	for _, k := range kinds {
		bases = append(bases, Step{Op: "New", Kind: k.Name, Msg: "inner: reason"})
	}
	for _, b := range bases {
		for _, k := range append([]kind{{Name: ""}}, kinds...) {
			for _, op := range []string{"WrapError", "WrapErrorf", "WrapIfNotCommonError", "WrapIfNotCommonErrorf"} {
				for _, m := range []string{"", "outer", "outer: with colon"} {
					c := Case{Chains: []Chain{{b, {Op: op, Kind: k.Name, Msg: m}}}}
					checkCase(t, "TestEnumerateSingles", c)
					n++
					nt++
				}
			}
		}
	}
	ev.Bulk(n, nt, "enumerated")
	ev.Sample(Case{Chains: []Chain{{bases[1], {Op: "WrapError", Kind: "ErrInvalid", Msg: "outer"}}}})
	ev.Exhaustive("30 kinds x message table x {New,Newf,Errorf}; every (base, wrapper, kind) two-step chain")
}

func TestChains(t *testing.T) {
	rapid.Check(t, func(rt *rapid.T) {
		c := Case{Chains: []Chain{genChain(rt, "c")}}
		key, _ := json.Marshal(c)
		ev.Case(string(key), c.nontrivial(), fmt.Sprintf("chain-len-%d", len(c.Chains[0])), c)
		checkCase(rt, "TestChains", c)
	})
}

func TestJoins(t *testing.T) {
	rapid.Check(t, func(rt *rapid.T) {
		n := rapid.IntRange(1, 4).Draw(rt, "members")
		c := Case{}
		for i := 0; i < n; i++ {
			c.Chains = append(c.Chains, genChain(rt, fmt.Sprintf("j%d", i)))
		}
		c.Join1 = n == 1
		key, _ := json.Marshal(c)
		ev.Case(string(key), true, fmt.Sprintf("join-%d", n), c)
		checkCase(rt, "TestJoins", c)
	})
}

// ---- converters ---------------------------------------------------------------------------------

type backendValue struct {
	Name string
	Err  error
}

var backendValues = []backendValue{
	{"os.ErrExist", os.ErrExist}, {"os.ErrNotExist", os.ErrNotExist}, {"os.ErrPermission", os.ErrPermission}, {"os.ErrClosed", os.ErrClosed},
	{"os.ErrInvalid", os.ErrInvalid}, {"os.ErrDeadlineExceeded", os.ErrDeadlineExceeded}, {"os.ErrNoDeadline", os.ErrNoDeadline}, {"os.ErrProcessDone", os.ErrProcessDone},
	{"afero.ErrFileExists", afero.ErrFileExists}, {"afero.ErrDestinationExists", afero.ErrDestinationExists}, {"afero.ErrFileClosed", afero.ErrFileClosed},
	{"afero.ErrFileNotFound", afero.ErrFileNotFound}, {"afero.ErrOutOfRange", afero.ErrOutOfRange}, {"afero.ErrTooLarge", afero.ErrTooLarge},
	{"filesystem.ErrPathNotExist", filesystem.ErrPathNotExist}, {"filesystem.ErrChownNotImplemented", filesystem.ErrChownNotImplemented},
	{"filesystem.ErrLinkNotImplemented", filesystem.ErrLinkNotImplemented},
	{"io.EOF", io.EOF}, {"io.ErrUnexpectedEOF", io.ErrUnexpectedEOF}, {"io.ErrClosedPipe", io.ErrClosedPipe}, {"io.ErrShortWrite", io.ErrShortWrite}, {"io.ErrNoProgress", io.ErrNoProgress},
	{"ENOENT", syscall.ENOENT}, {"EEXIST", syscall.EEXIST}, {"EACCES", syscall.EACCES}, {"EPERM", syscall.EPERM}, {"ENOTDIR", syscall.ENOTDIR}, {"EISDIR", syscall.EISDIR},
	{"ENOTEMPTY", syscall.ENOTEMPTY}, {"EBADF", syscall.EBADF}, {"EINVAL", syscall.EINVAL}, {"ETIMEDOUT", syscall.ETIMEDOUT}, {"ENOSPC", syscall.ENOSPC}, {"EIO", syscall.EIO},
	{"ESRCH", syscall.ESRCH}, {"EAGAIN", syscall.EAGAIN}, {"ENAMETOOLONG", syscall.ENAMETOOLONG}, {"ELOOP", syscall.ELOOP}, {"EXDEV", syscall.EXDEV}, {"EROFS", syscall.EROFS},
	{"exec.ErrNotFound", exec.ErrNotFound}, {"exec.ErrDot", exec.ErrDot}, {"exec.ErrWaitDelay", exec.ErrWaitDelay},
	{"context.Canceled", context.Canceled}, {"context.DeadlineExceeded", context.DeadlineExceeded},
	{"text:signal: killed", errors.New("signal: killed")}, {"text:signal: terminated", errors.New("signal: terminated")},
	{"text:Access is denied", errors.New("Access is denied")}, {"text:not implemented", errors.New("not implemented")},
	{"text:file exists", errors.New("mkdir x: file exists")}, {"text:i/o timeout", errors.New("read: i/o timeout")}, {"text:bad file descriptor", errors.New("close: bad file descriptor")},
	{"plain", errors.New("something else")},
	// the conditions of the process library that the process converter names
	{"process.ErrorNotPermitted", process.ErrorNotPermitted}, {"process.ErrorProcessNotRunning", process.ErrorProcessNotRunning},
}

// mustClassify: conditions that a converter names explicitly must come out with a kind ("map each backend condition to one
// stable kind"): being handed back unclassified is no kind.
var mustClassify = map[string]map[string]bool{
	"ConvertProcessError": {"process.ErrorNotPermitted": true, "process.ErrorProcessNotRunning": true, "exec.ErrNotFound": true, "exec.ErrDot": true, "exec.ErrWaitDelay": true},
}

func init() {
	for _, k := range kinds {
		backendValues = append(backendValues, backendValue{"kind:" + k.Name, k.Err})
	}
}

var converters = []struct {
	Name string
	F    func(error) error
}{
	{"ConvertFileSystemError", filesystem.ConvertFileSystemError},
	{"ConvertIOError", safeio.ConvertIOError},
	{"ConvertProcessError", proc.ConvertProcessError},
	{"ConvertContextError", commonerrors.ConvertContextError},
}

var wrappings = []string{"bare", "PathError", "LinkError", "SyscallError", "%w", "%w%w-chain", "exec.Error"}

func wrap(w string, e error) error {
	switch w {
	case "PathError":
		return &fs.PathError{Op: "open", Path: "/some/path", Err: e}
	case "LinkError":
		return &os.LinkError{Op: "rename", Old: "/a", New: "/b", Err: e}
	case "SyscallError":
		return os.NewSyscallError("fsync", e)
	case "%w":
		return fmt.Errorf("operation failed: %w", e)
	case "%w%w-chain":
		return fmt.Errorf("outer: %w", fmt.Errorf("inner: %w", e))
	case "exec.Error":
		return &exec.Error{Name: "tool", Err: e}
	}
	return e
}

type ConvCase struct {
	Converter string `json:"converter"`
	Value     string `json:"value"`
	Wrapping  string `json:"wrapping"`
}

func checkConv(t ev.T, test string, c ConvCase) {
	var conv func(error) error
	for _, cv := range converters {
		if cv.Name == c.Converter {
			conv = cv.F
		}
	}
	var base error
	found := false
	for _, b := range backendValues {
		if b.Name == c.Value {
			base, found = b.Err, true
		}
	}
	if conv == nil || !found {
		t.Fatalf("HARNESS: bad case %+v", c)
	}
	ev.Guard(t, prop, test, c, func() {
		in := wrap(c.Wrapping, base)
		out1 := conv(in)
		out2 := conv(wrap(c.Wrapping, base))
		k1, k2 := kindsOf(out1), kindsOf(out2)
		// stable: the same condition always maps to the same kind
		if strings.Join(k1, ",") != strings.Join(k2, ",") || (out1 == nil) != (out2 == nil) {
			ev.Fail(t, prop, test, c, "%s is not deterministic on %q: kinds %v then %v", c.Converter, in, k1, k2)
		}
		// one kind: never two of the 30 at once (unless the input itself already carried them)
		if len(k1) > 1 && len(kindsOf(in)) <= 1 {
			ev.Fail(t, prop, test, c, "%s(%q) = %q is recognised as several kinds %v", c.Converter, in, out1, k1)
		}
		// cancellation / deadline never reclassified
		if errors.Is(in, context.Canceled) || errors.Is(in, commonerrors.ErrCancelled) {
			if len(k1) != 1 || k1[0] != "ErrCancelled" {
				ev.Fail(t, prop, test, c, "%s(%q) = %v recognised as %v: a cancellation must stay 'cancelled'", c.Converter, in, out1, k1)
			}
		}
		if errors.Is(in, context.DeadlineExceeded) || errors.Is(in, commonerrors.ErrTimeout) {
			if len(k1) != 1 || k1[0] != "ErrTimeout" {
				ev.Fail(t, prop, test, c, "%s(%q) = %v recognised as %v: a deadline must stay 'timeout'", c.Converter, in, out1, k1)
			}
		}
		// an input already of one kind keeps it
		if ki := kindsOf(in); len(ki) == 1 && out1 != nil {
			if len(k1) != 1 || k1[0] != ki[0] {
				ev.Fail(t, prop, test, c, "%s(%q): input of kind %v came back as %v", c.Converter, in, ki, k1)
			}
		}
		if mustClassify[c.Converter][c.Value] && out1 != nil && len(k1) == 0 {
			ev.Fail(t, prop, test, c, "%s names the condition %s but hands it back without any kind: %v", c.Converter, c.Value, out1)
		}
		// idempotent on kinds
		if out1 != nil {
			out3 := conv(out1)
			if k3 := kindsOf(out3); strings.Join(k3, ",") != strings.Join(k1, ",") {
				ev.Fail(t, prop, test, c, "%s is not idempotent on %q: %v then %v", c.Converter, in, k1, k3)
			}
		}
		// a conversion never invents an error out of nil
		if conv(nil) != nil {
			ev.Fail(t, prop, test, c, "%s(nil) != nil", c.Converter)
		}
	})
}

// checkConvShapes: "map each backend condition to one stable kind" - the kind must not depend on the shape in which
// the condition reaches the converter (bare, inside a PathError / LinkError / SyscallError, behind %w ...).
func checkConvShapes(t ev.T, test string, c ConvCase) {
	var conv func(error) error
	for _, cv := range converters {
		if cv.Name == c.Converter {
			conv = cv.F
		}
	}
	var base error
	for _, b := range backendValues {
		if b.Name == c.Value {
			base = b.Err
		}
	}
	if conv == nil {
		t.Fatalf("HARNESS: bad case %+v", c)
	}
	ev.Guard(t, prop, test, c, func() {
		ref, refShape := "", ""
		for i, w := range wrappings {
			out := conv(wrap(w, base))
			k := strings.Join(kindsOf(out), ",")
			switch {
			case out == nil:
				k = "<nil>"
			case k == "":
				k = "<none of the kinds>"
			}
			if i == 0 {
				ref, refShape = k, w
			} else if k != ref {
				ev.Fail(t, prop, test, c, "%s maps the backend condition %s to %s when it arrives as %s but to %s when it arrives as %s", c.Converter, c.Value, ref, refShape, k, w)
			}
		}
	})
}

func replayConv(t ev.T, raw json.RawMessage) {
	var c ConvCase
	if err := json.Unmarshal(raw, &c); err != nil {
		t.Fatalf("HARNESS: %v", err)
	}
	if c.Wrapping == "*" {
		checkConvShapes(t, "TestConverters", c)
		return
	}
	checkConv(t, "TestConverters", c)
}

// TestConverters enumerates converter x backend value x wrapping completely.
func TestConverters(t *testing.T) {
	var n int64
	for _, cv := range converters {
		for _, b := range backendValues {
			for _, w := range wrappings {
				checkConv(t, "TestConverters", ConvCase{cv.Name, b.Name, w})
				n++
			}
			checkConvShapes(t, "TestConverters", ConvCase{cv.Name, b.Name, "*"})
			n++
		}
	}
	ev.Bulk(n, n, "converters")
	ev.Sample(ConvCase{"ConvertFileSystemError", "ENOENT", "PathError"})
	ev.Exhaustive("4 converters x backend values x 7 wrappings")
}
