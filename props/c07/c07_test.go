// Package c07 decides C07: archives are faithful — zip->unzip round trip and the
// read-only zip / tar filesystem views.
package c07

import (
	"archive/tar"
	"bytes"
	"context"
	"crypto/sha256"
	"encoding/hex"
	"encoding/json"
	"fmt"
	"os"
	"path"
	"path/filepath"
	"reflect"
	"sort"
	"strings"
	"testing"
	"time"

	"github.com/spf13/afero"
	"pgregory.net/rapid"

	"github.com/ARM-software/golang-utils/utils/commonerrors"
	"github.com/ARM-software/golang-utils/utils/filesystem"

	"verif/internal/ev"
	"verif/internal/fsbox"
	"verif/internal/treegen"
)

const prop = "C07"

func TestMain(m *testing.M) { ev.Main(m) }

type Case struct {
	Backend string       `json:"backend"`
	Tree    treegen.Tree `json:"tree"`
	Limits  bool         `json:"generous_limits"`
	// Recursive: the generous limits apply recursively (the trees hold no real archive, only files that are named like one)
	Recursive bool `json:"recursive_limits,omitempty"`
	// Root: name of the directory that is archived (default "src"); may be the name of a directory inside the tree
	Root string `json:"root_name,omitempty"`
	View    string       `json:"view,omitempty"` // views test: zip | tar
	// RereadTar re-reads file contents through the tar view a second time (only set by the replay of C07-R27)
	RereadTar bool `json:"reread_tar,omitempty"`
	// OutSpelling / SrcSpelling: how Unzip is given the destination and Zip the directory to archive: "" clean, slash =
	// trailing separator, double = doubled separator, dot = /./ before the last element, dotdot = <dir>/x/../<base>
	OutSpelling string `json:"destination_spelling,omitempty"`
	SrcSpelling string `json:"source_spelling,omitempty"`
	// TightFileSize: small trees only - a per-file maximum of 3500 bytes (every file and the archive fit; a directory of the
	// operating system "weighs" 4096)
	TightFileSize bool `json:"file_size_limit_is_the_largest_file,omitempty"`
}

func spell(p, how string) string {
	dir, base := filepath.Dir(p), filepath.Base(p)
	sep := string(filepath.Separator)
	switch how {
	case "slash":
		return p + sep
	case "double":
		return dir + sep + sep + base
	case "dot":
		return dir + sep + "." + sep + base
	case "dotdot":
		return dir + sep + "x" + sep + ".." + sep + base
	}
	return p
}

func generous() filesystem.ILimits { return filesystem.NewLimits(1<<30, 1<<34, 1<<20, -1, false) }

func (c Case) limits() filesystem.ILimits {
	if c.TightFileSize {
		// a per-file limit below the size the operating system reports for a directory (4096 bytes), yet above every file of
		// the tree and above the archive itself (which is a file too): everything fits
		est := int64(200)
		for _, n := range c.Tree {
			est += int64(2*len(n.Path)+150) + int64(n.Content.Len)
		}
		if est < 3000 {
			return filesystem.NewLimits(3500, 1<<34, 1<<20, -1, c.Recursive)
		}
	}
	if c.Recursive {
		return filesystem.NewLimits(1<<30, 1<<34, 1<<20, -1, true)
	}
	return generous()
}

func (c Case) root() string {
	if c.Root != "" {
		return c.Root
	}
	return "src"
}

func genTree(t *rapid.T, forTar bool) treegen.Tree {
	o := treegen.Options{MaxDepth: 6, MaxEntries: 40, BigFiles: true, Mtimes: true, KeepFileInEveryDir: false}
	if ev.Thorough() {
		o.MaxEntries = 200
		o.HugeFiles = rapid.IntRange(0, 9).Draw(t, "huge") == 0
	}
	if rapid.IntRange(0, 3).Draw(t, "small") == 0 {
		o.MaxEntries = 6
	}
	return treegen.Gen(t, "tree", o)
}

func nontrivial(tr treegen.Tree) bool {
	hasChild := map[string]bool{}
	for _, n := range tr {
		hasChild[path.Dir(n.Path)] = true
	}
	for _, n := range tr {
		if n.Kind == "dir" && !hasChild[n.Path] {
			return true // empty directory
		}
		if n.Kind == "file" && (n.Content.Len == 0 || n.Content.Len >= 65536) {
			return true
		}
		b := path.Base(n.Path)
		if strings.HasPrefix(b, ".") || strings.Contains(b, "..") {
			return true
		}
		for _, r := range b {
			if r > 127 {
				return true
			}
		}
	}
	return false
}

// ---- round trip -------------------------------------------------------------------------------------------

func checkRoundTrip(t ev.T, test string, c Case) {
	box := fsbox.New(c.Backend)
	defer box.Close()
	src, arch, out := box.Path("in", c.root()), box.Path("a.zip"), box.Path("out")
	if err := c.Tree.Write(box.Raw, src); err != nil {
		// names too long for the OS etc.: not a case
		ev.Inconclusive("tree could not be written: " + firstWords(err.Error()))
		return
	}
	want := box.Snap("in/" + c.root())
	var zerr, uerr error
	var list []string
	ev.Guard(t, prop, test, c, func() {
		if c.Limits {
			zerr = box.FS.ZipWithContextAndLimits(context.Background(), spell(src, c.SrcSpelling), arch, c.limits())
		} else {
			zerr = box.FS.Zip(spell(src, c.SrcSpelling), arch)
		}
	})
	if zerr != nil {
		ev.Fail(t, prop, test, c, "Zip of a legal tree failed: %v", zerr)
	}
	ev.Guard(t, prop, test, c, func() {
		if c.Limits {
			list, uerr = box.FS.UnzipWithContextAndLimits(context.Background(), arch, spell(out, c.OutSpelling), c.limits())
		} else {
			list, uerr = box.FS.Unzip(arch, spell(out, c.OutSpelling))
		}
	})
	if uerr != nil {
		ev.Fail(t, prop, test, c, "Unzip of the archive produced by Zip failed: %v", uerr)
	}
	got := box.Snap("out")
	// same relative paths, kinds, contents
	if d := treegen.Diff(want, got, treegen.DiffOptions{IgnoreTimes: true, IgnoreModes: true, Except: []string{}}); len(filterRoot(d)) > 0 {
		ev.Fail(t, prop, test, c, "round trip differs: %v", head(filterRoot(d)))
	}
	// modification times preserved to archive precision
	for rel, w := range want {
		g, ok := got[rel]
		if !ok || rel == "." || w.Kind == "link" {
			continue
		}
		delta := time.Duration(g.MtimeN - w.MtimeN)
		if delta < 0 {
			delta = -delta
		}
		if delta > 2*time.Second {
			ev.Fail(t, prop, test, c, "modification time of %q (%s) not preserved: source %v, extracted %v", rel, w.Kind, time.Unix(0, w.MtimeN).UTC(), time.Unix(0, g.MtimeN).UTC())
		}
		if w.MtimeN%1e9 == 0 && delta >= time.Second {
			ev.Fail(t, prop, test, c, "modification time of %q (%s) differs by %v although the archive stores whole seconds exactly", rel, w.Kind, delta)
		}
	}
	// the returned list names exactly the entries created
	created := map[string]bool{}
	for rel := range got {
		if rel != "." {
			created[filepath.Join(out, filepath.FromSlash(rel))] = true
		}
	}
	listed := map[string]bool{}
	for _, p := range list {
		listed[filepath.Clean(p)] = true
	}
	for p := range created {
		if !listed[p] {
			ev.Fail(t, prop, test, c, "entry %q was created but is not in the returned list", p)
		}
	}
	for p := range listed {
		if p == filepath.Clean(out) {
			// the destination itself (created by the call as well): an archive made from a directory spelled with a
			// trailing separator carries an entry for its root
			ev.Class("the returned list names the destination itself")
			continue
		}
		if !created[p] {
			ev.Fail(t, prop, test, c, "returned list names %q which was not created", p)
		}
	}
}

func filterRoot(d []string) (out []string) {
	for _, x := range d {
		if !strings.Contains(x, ": . ") {
			out = append(out, x)
		}
	}
	return
}

func head(s []string) []string {
	if len(s) > 6 {
		return append(s[:6:6], fmt.Sprintf("... %d more", len(s)-6))
	}
	return s
}

func firstWords(s string) string {
	if i := strings.LastIndex(s, ": "); i >= 0 {
		return s[i+2:]
	}
	return s
}

// ---- views --------------------------------------------------------------------------------------------------

func writeTar(tr treegen.Tree) []byte {
	var buf bytes.Buffer
	w := tar.NewWriter(&buf)
	for _, n := range tr {
		mt := time.Unix(n.MtimeS, 0)
		switch n.Kind {
		case "dir":
			_ = w.WriteHeader(&tar.Header{Typeflag: tar.TypeDir, Name: n.Path + "/", Mode: 0o755, ModTime: mt, Format: tar.FormatPAX})
		case "file":
			b := n.Content.Bytes()
			_ = w.WriteHeader(&tar.Header{Typeflag: tar.TypeReg, Name: n.Path, Mode: 0o644, Size: int64(len(b)), ModTime: mt, Format: tar.FormatPAX})
			_, _ = w.Write(b)
		}
	}
	_ = w.Close()
	return buf.Bytes()
}

type viewEntry struct {
	Kind string
	Size int64
	Sha  string
}

// walkView lists what the view exposes, through the library's FS API (Walk + Stat + ReadFile).
func walkView(v filesystem.FS, readContents bool) (map[string]viewEntry, error) {
	out := map[string]viewEntry{}
	err := v.Walk("/", func(p string, info os.FileInfo, err error) error {
		if err != nil {
			return fmt.Errorf("walk %q: %w", p, err)
		}
		rel := strings.TrimPrefix(filepath.ToSlash(p), "/")
		if rel == "" {
			return nil
		}
		st, serr := v.Stat(p)
		if serr != nil {
			return fmt.Errorf("stat %q: %w", p, serr)
		}
		if st.IsDir() != info.IsDir() {
			return fmt.Errorf("walk and stat disagree on the kind of %q", p)
		}
		if info.IsDir() {
			out[rel] = viewEntry{Kind: "dir"}
			return nil
		}
		e := viewEntry{Kind: "file", Size: st.Size()}
		if !readContents {
			out[rel] = e
			return nil
		}
		if st.Size() > 0 {
			b, rerr := v.ReadFile(p)
			if rerr != nil {
				return fmt.Errorf("read %q: %w", p, rerr)
			}
			s := sha256.Sum256(b)
			e.Sha = hex.EncodeToString(s[:8])
			if int64(len(b)) != st.Size() {
				return fmt.Errorf("%q: Stat says %d bytes, ReadFile returned %d", p, st.Size(), len(b))
			}
		} else {
			s := sha256.Sum256(nil)
			e.Sha = hex.EncodeToString(s[:8])
		}
		out[rel] = e
		return nil
	})
	return out, err
}

func expectedView(tr treegen.Tree) map[string]viewEntry {
	out := map[string]viewEntry{}
	for rel, e := range tr.Expected() {
		if rel == "." {
			continue
		}
		out[rel] = viewEntry{Kind: e.Kind, Size: e.Size, Sha: e.Sha}
	}
	return out
}

func diffView(want, got map[string]viewEntry) []string {
	var d []string
	for k, w := range want {
		g, ok := got[k]
		if !ok {
			d = append(d, "missing in view: "+k+" ("+w.Kind+")")
		} else if g != w {
			d = append(d, fmt.Sprintf("differs: %s want %+v got %+v", k, w, g))
		}
	}
	for k, g := range got {
		if _, ok := want[k]; !ok {
			d = append(d, "extra in view: "+k+" ("+g.Kind+")")
		}
	}
	sort.Strings(d)
	return d
}

// hasChildlessDir: signature of known finding C07-R24 (tar view of a tree with an empty directory).
func hasChildlessDir(tr treegen.Tree) bool {
	hasChild := map[string]bool{}
	for _, n := range tr {
		for d := path.Dir(n.Path); d != "." && d != "/"; d = path.Dir(d) {
			hasChild[d] = true
		}
	}
	for _, n := range tr {
		if n.Kind == "dir" && !hasChild[n.Path] {
			return true
		}
	}
	return false
}

func checkView(t ev.T, test string, c Case) {
	box := fsbox.New(c.Backend)
	defer box.Close()
	var view filesystem.ICloseableFS
	var file filesystem.File
	var err error
	switch c.View {
	case "zip":
		src, arch := box.Path("src"), box.Path("a.zip")
		if werr := c.Tree.Write(box.Raw, src); werr != nil {
			ev.Inconclusive("tree could not be written: " + firstWords(werr.Error()))
			return
		}
		if zerr := box.FS.Zip(src, arch); zerr != nil {
			ev.Fail(t, prop, test, c, "Zip of a legal tree failed: %v", zerr)
		}
		view, file, err = filesystem.NewZipFileSystem(box.FS, arch, filesystem.NoLimits())
	default:
		arch := box.Path("a.tar")
		if werr := afero.WriteFile(box.Raw, arch, writeTar(c.Tree), 0o644); werr != nil {
			t.Fatalf("HARNESS: %v", werr)
		}
		view, file, err = filesystem.NewTarFileSystem(box.FS, arch, filesystem.NoLimits())
	}
	if err != nil || view == nil {
		ev.Fail(t, prop, test, c, "opening the %s view failed: %v", c.View, err)
	}
	defer func() {
		if file != nil {
			_ = file.Close()
		}
	}()
	want := expectedView(c.Tree)
	var got map[string]viewEntry
	var werr error
	ev.Guard(t, prop, test, c, func() { got, werr = walkView(view, true) })
	if werr != nil {
		ev.Fail(t, prop, test, c, "%s view cannot be walked: %v", c.View, werr)
	}
	archBefore := box.Snap()
	if d := diffView(want, got); len(d) > 0 {
		ev.Fail(t, prop, test, c, "%s view does not expose exactly the tree: %v", c.View, head(d))
	}
	// pick an existing file and directory for the mutation attempts
	existingFile, existingDir := "", "/"
	var rels []string
	for rel := range want {
		rels = append(rels, rel)
	}
	sort.Strings(rels)
	for _, rel := range rels {
		if want[rel].Kind == "file" && existingFile == "" {
			existingFile = "/" + rel
		}
		if want[rel].Kind == "dir" && existingDir == "/" {
			// a directory with something in it (removing or cleaning an empty one is a no-op that needs no refusal)
			// ... and that something is a file: a directory holding only childless directories cleans to a
			// no-op because those appear non-existent (known finding C07-R24)
			for _, other := range rels {
				if strings.HasPrefix(other, rel+"/") && want[other].Kind == "file" && !strings.Contains(strings.TrimPrefix(other, rel+"/"), "/") {
					existingDir = "/" + rel
					break
				}
			}
		}
	}
	if existingFile == "" {
		existingFile = "/does-not-exist.txt"
	}
	now := time.Now()
	ctx := context.Background()
	mutations := map[string]func() error{
		"WriteFile(existing)": func() error { return view.WriteFile(existingFile, []byte("x"), 0o644) },
		"WriteFile(new)":      func() error { return view.WriteFile("/new-file.txt", []byte("x"), 0o644) },
		"MkDir(new)":          func() error { return view.MkDir("/new-dir") },
		"MkDirAll(new)":       func() error { return view.MkDirAll("/new-dir/sub", 0o755) },
		"Rm(existing file)":   func() error { return view.Rm(existingFile) },
		"Rm(existing dir)":    func() error { return rmDir(view, existingDir) },
		"Move":                func() error { return view.Move(existingFile, "/moved") },
		"Chmod":               func() error { return view.Chmod(existingFile, 0o600) },
		"Chtimes":             func() error { return view.Chtimes(existingFile, now, now) },
		"Touch(new)":          func() error { return view.Touch("/touched") },
		"CreateFile": func() error {
			f, e := view.CreateFile("/created")
			if f != nil {
				_ = f.Close()
			}
			return e
		},
		"OpenFile(write)": func() error {
			f, e := view.OpenFile(existingFile, os.O_WRONLY|os.O_TRUNC, 0o644)
			if f != nil {
				_, e2 := f.Write([]byte("x"))
				_ = f.Close()
				if e == nil {
					return e2
				}
			}
			return e
		},
		"OpenFile(create)": func() error {
			f, e := view.OpenFile("/created2", os.O_RDWR|os.O_CREATE, 0o644)
			if f != nil {
				_ = f.Close()
			}
			return e
		},
		"CleanDir":              func() error { return cleanDir(view, existingDir) },
		"RemoveWithContext":     func() error { return view.RemoveWithContext(ctx, existingFile) },
		"CopyToFile(into view)": func() error { return view.CopyToFile(existingFile, "/copy.txt") },
	}
	names := make([]string, 0, len(mutations))
	for n := range mutations {
		names = append(names, n)
	}
	sort.Strings(names)
	missing := existingFile == "/does-not-exist.txt"
	for _, n := range names {
		var merr error
		ev.Guard(t, prop, test, c, func() { merr = mutations[n]() })
		lenient := missing && (strings.HasPrefix(n, "Rm(existing file)") || n == "RemoveWithContext") // rm of a missing path is nil by contract
		if merr == nil && !lenient && !(n == "Rm(existing dir)" && existingDir == "/") && !(n == "CleanDir" && existingDir == "/") {
			ev.Fail(t, prop, test, c, "mutating call %s on the read-only %s view returned nil", n, c.View)
		}
	}
	// nothing changed: the archive and everything around it is byte-identical, and the view still lists the same
	// entries. Contents are re-read through the zip view only: the tar view serves the bytes of a file once
	// (known finding C07-R27, re-demonstrated by a committed replay), so its second walk is limited to Stat.
	if d := treegen.Diff(archBefore, box.Snap(), treegen.DiffOptions{}); len(d) > 0 {
		ev.Fail(t, prop, test, c, "the backing files changed although every mutation on the %s view was refused: %v", c.View, head(d))
	}
	reread := c.View == "zip" || c.RereadTar
	if !reread {
		ev.Exclude("C07-R27 second read of a file through the tar view")
	}
	var after map[string]viewEntry
	ev.Guard(t, prop, test, c, func() { after, werr = walkView(view, reread) })
	if werr != nil {
		ev.Fail(t, prop, test, c, "%s view cannot be walked after the refused mutations: %v", c.View, werr)
	}
	if !reread {
		for k, e := range got {
			e.Sha = ""
			got[k] = e
		}
	}
	if d := diffView(got, after); len(d) > 0 {
		ev.Fail(t, prop, test, c, "%s view changed although every mutation was refused: %v", c.View, head(d))
	}
	// the times of an entry are served like its other attributes (an archive only knows modification times)
	if existingFile != "" {
		ev.Guard(t, prop, test, c, func() {
			st, serr := view.Stat(existingFile)
			ti, terr := view.StatTimes(existingFile)
			if serr == nil && (terr != nil || ti == nil || !ti.ModTime().Equal(st.ModTime())) {
				mt := "<nil>"
				if ti != nil {
					mt = ti.ModTime().String()
				}
				ev.Fail(t, prop, test, c, "%s view: Stat(%q) gives the modification time %v but StatTimes gives %s (error %v)", c.View, existingFile, st.ModTime(), mt, terr)
			}
		})
	}
	// once closed, nothing is served any more
	if cerr := view.Close(); cerr != nil {
		ev.Fail(t, prop, test, c, "Close failed: %v", cerr)
	}
	file = nil
	checkClosed(t, test, c, view, existingFile, existingDir)
}

func rmDir(v filesystem.FS, d string) error {
	if d == "/" {
		return nil
	}
	return v.Rm(d)
}

func cleanDir(v filesystem.FS, d string) error {
	if d == "/" {
		return nil
	}
	return v.CleanDir(d)
}

// methods of filesystem.FS that do not need the archive (pure functions of their arguments or of the
// process): they are not expected to fail after Close.
var noArchiveNeeded = map[string]string{
	"PathSeparator": "constant", "GetType": "constant", "ConvertFilePath": "pure path function", "TempDirectory": "process property",
	"CurrentDirectory": "process property", "ExcludeAll": "pure list filter", "Close": "closing twice is allowed",
	"NewRemoteLockFile": "only builds an object", "Walk": "reports through the callback, checked separately", "WalkWithContext": "idem",
	"WalkWithContextAndExclusionPatterns": "idem", "Exists": "returns a bool, checked separately", "ConvertToAbsolutePath": "pure path function",
	"ConvertToRelativePath": "pure path function",
	"IsZipWithContext":      "decides on the extension alone when the file cannot be read",
}

// direct accessors: must report the 'failed condition' kind once the archive is closed.
var directAccessors = map[string]bool{"Stat": true, "StatTimes": true, "Lstat": true, "GenericOpen": true, "Open": true, "OpenFile": true, "ReadFile": true}

func checkClosed(t ev.T, test string, c Case, view filesystem.ICloseableFS, existingFile, existingDir string) {
	rv := reflect.ValueOf(view)
	ft := reflect.TypeOf((*filesystem.FS)(nil)).Elem()
	errType := reflect.TypeOf((*error)(nil)).Elem()
	ctxType := reflect.TypeOf((*context.Context)(nil)).Elem()
	called := 0
	for i := 0; i < ft.NumMethod(); i++ {
		m := ft.Method(i)
		if _, skip := noArchiveNeeded[m.Name]; skip {
			continue
		}
		mt := m.Type
		if mt.NumOut() == 0 || !mt.Out(mt.NumOut()-1).Implements(errType) {
			continue
		}
		args := make([]reflect.Value, 0, mt.NumIn())
		buildable := true
		strs := 0
		for j := 0; j < mt.NumIn(); j++ {
			at := mt.In(j)
			if mt.IsVariadic() && j == mt.NumIn()-1 {
				continue
			}
			switch {
			case at == ctxType:
				args = append(args, reflect.ValueOf(context.Background()))
			case at.Kind() == reflect.String:
				v := existingFile
				if strings.Contains(m.Name, "Dir") || strings.HasPrefix(m.Name, "Ls") || strings.HasPrefix(m.Name, "Lls") || m.Name == "FindAll" || strings.Contains(m.Name, "Garbage") || strings.Contains(m.Name, "Recursively") {
					v = existingDir
				}
				if strs > 0 {
					v = "/second-argument"
				}
				if m.Name == "FileHash" || m.Name == "FileHashWithContext" {
					if strs == 0 {
						v = "MD5"
					} else {
						v = existingFile
					}
				}
				if m.Name == "Glob" {
					v = "/*"
				}
				strs++
				args = append(args, reflect.ValueOf(v).Convert(at))
			case at.Kind() == reflect.Int || at.Kind() == reflect.Int64:
				args = append(args, reflect.ValueOf(1).Convert(at))
			case at == reflect.TypeOf(os.FileMode(0)):
				args = append(args, reflect.ValueOf(os.FileMode(0o644)))
			case at == reflect.TypeOf(time.Time{}):
				args = append(args, reflect.ValueOf(time.Now()))
			case at == reflect.TypeOf(time.Duration(0)):
				args = append(args, reflect.ValueOf(time.Millisecond))
			case at == reflect.TypeOf([]byte(nil)):
				args = append(args, reflect.ValueOf([]byte("x")))
			case at.Kind() == reflect.Interface && at.Name() == "ILimits":
				args = append(args, reflect.ValueOf(filesystem.NoLimits()))
			default:
				buildable = false
			}
		}
		if !buildable {
			continue
		}
		var outs []reflect.Value
		func() {
			defer func() {
				if r := recover(); r != nil {
					ev.Fail(t, prop, test, c, "%s on a closed %s view panicked: %v", m.Name, c.View, r)
				}
			}()
			outs = rv.MethodByName(m.Name).Call(args)
		}()
		called++
		last := outs[len(outs)-1]
		if last.IsNil() {
			if os.Getenv("C07_LIST_NIL") != "" {
				fmt.Printf("NIL-AFTER-CLOSE %s%v\n", m.Name, describe(args))
				continue
			}
			ev.Fail(t, prop, test, c, "%s%v on a closed %s view returned a nil error: the archive is closed, nothing may be served", m.Name, describe(args), c.View)
		}
		if directAccessors[m.Name] {
			if e, _ := last.Interface().(error); !commonerrors.Any(e, commonerrors.ErrCondition) {
				ev.Fail(t, prop, test, c, "direct accessor %s on a closed %s view returned %q, not the 'failed condition' kind", m.Name, c.View, e)
			}
		}
	}
	ev.MetricMax("fs-methods-called-on-closed-view", float64(called))
	if view.Exists(existingFile) && existingFile != "/does-not-exist.txt" {
		ev.Fail(t, prop, test, c, "Exists(%q) is true on a closed %s view", existingFile, c.View)
	}
	visited := 0
	werr := view.Walk("/", func(p string, info os.FileInfo, err error) error {
		if err == nil {
			visited++
		}
		return err
	})
	if werr == nil || visited > 0 {
		ev.Fail(t, prop, test, c, "Walk on a closed %s view visited %d entries and returned %v", c.View, visited, werr)
	}
}

func describe(args []reflect.Value) string {
	var s []string
	for _, a := range args {
		if a.Kind() == reflect.String {
			s = append(s, fmt.Sprintf("%q", a.String()))
		}
	}
	return "(" + strings.Join(s, ", ") + ")"
}

func replayCase(t ev.T, raw json.RawMessage) {
	var c Case
	if err := json.Unmarshal(raw, &c); err != nil {
		t.Fatalf("HARNESS: %v", err)
	}
	if c.View != "" {
		checkView(t, "TestViews", c)
	} else {
		checkRoundTrip(t, "TestRoundTrip", c)
	}
}

func init() {
	ev.RegisterReplay("TestRoundTrip", replayCase)
	ev.RegisterReplay("TestViews", replayCase)
}

func TestReplay(t *testing.T)      { ev.RunReplay(t) }
func TestRegressions(t *testing.T) { ev.Regressions(t, prop) }

func TestRoundTrip(t *testing.T) {
	rapid.Check(t, func(rt *rapid.T) {
		c := Case{Backend: rapid.SampledFrom([]string{"mem", "os"}).Draw(rt, "backend"), Limits: rapid.Bool().Draw(rt, "limits")}
		c.Tree = genTree(rt, false)
		c.Recursive = c.Limits && rapid.Bool().Draw(rt, "recursive-limits")
		c.TightFileSize = c.Limits && rapid.IntRange(0, 3).Draw(rt, "tight-file-size") == 0
		c.OutSpelling = rapid.SampledFrom([]string{"", "", "", "slash", "double", "dot", "dotdot"}).Draw(rt, "out-spelling")
		c.SrcSpelling = rapid.SampledFrom([]string{"", "", "", "slash", "double", "dot", "dotdot"}).Draw(rt, "src-spelling")
		// files named like archives (any letter case) with ordinary content
		if len(c.Tree) > 0 && rapid.IntRange(0, 2).Draw(rt, "archive-names") == 0 {
			for k, tries := 0, rapid.IntRange(1, 3).Draw(rt, "archive-named-files"); k < tries; k++ {
				i := rapid.IntRange(0, len(c.Tree)-1).Draw(rt, fmt.Sprintf("archive-named%d", k))
				if c.Tree[i].Kind == "file" {
					old := c.Tree[i].Path
					nw := old + rapid.SampledFrom([]string{".zip", ".ZIP", ".Jar", ".GZ", ".7Z", ".Z", ".tar.gz", ".jar"}).Draw(rt, fmt.Sprintf("archive-ext%d", k))
					clash := false
					for _, nd := range c.Tree {
						if nd.Path == nw {
							clash = true
						}
					}
					if !clash {
						c.Tree[i].Path = nw
					}
				}
			}
		}
		// the archived directory may bear the name of a directory inside the tree
		if rapid.IntRange(0, 3).Draw(rt, "root-named-like-an-entry") == 0 {
			var dirs []string
			for _, nd := range c.Tree {
				if nd.Kind == "dir" && path.Base(nd.Path) != "." && path.Base(nd.Path) != ".." && !strings.ContainsAny(path.Base(nd.Path), "/\\") {
					dirs = append(dirs, path.Base(nd.Path))
				}
			}
			if len(dirs) > 0 {
				c.Root = rapid.SampledFrom(dirs).Draw(rt, "root-name")
			}
		}
		key, _ := json.Marshal(c)
		ev.Case(string(key), nontrivial(c.Tree), "roundtrip/"+c.Backend, c)
		checkRoundTrip(rt, "TestRoundTrip", c)
	})
}

func TestViews(t *testing.T) {
	rapid.Check(t, func(rt *rapid.T) {
		c := Case{Backend: rapid.SampledFrom([]string{"mem", "os"}).Draw(rt, "backend"), View: rapid.SampledFrom([]string{"zip", "tar"}).Draw(rt, "view")}
		c.Tree = genTree(rt, c.View == "tar")
		if len(c.Tree) == 0 {
			// known finding C07-R24 (root variant): the root of an empty archive is childless too
			ev.Exclude("C07-R24 root of an empty archive")
			c.Tree = treegen.Tree{{Path: "keep", Kind: "file", Content: treegen.Content{Len: 3, Kind: 1}, MtimeS: 1000000000}}
		}
		if c.View == "tar" && hasChildlessDir(c.Tree) {
			// known finding C07-R24: excluded by construction (every directory of a tar view gets a file), counted
			ev.Exclude("C07-R24 childless directory in a tar view")
			var extra treegen.Tree
			hasChild := map[string]bool{}
			for _, n := range c.Tree {
				for d := path.Dir(n.Path); d != "." && d != "/"; d = path.Dir(d) {
					hasChild[d] = true
				}
			}
			for _, n := range c.Tree {
				if n.Kind == "dir" && !hasChild[n.Path] {
					extra = append(extra, treegen.Node{Path: n.Path + "/keep", Kind: "file", Content: treegen.Content{Len: 3, Kind: 1}, MtimeS: 1000000000})
				}
			}
			c.Tree = append(c.Tree, extra...)
		}
		key, _ := json.Marshal(c)
		ev.Case(string(key), nontrivial(c.Tree), "view/"+c.View+"/"+c.Backend, c)
		checkView(rt, "TestViews", c)
	})
}
