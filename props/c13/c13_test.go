// Package c13 decides C13: loggers are goroutine-safe and lose nothing. Built and run with the race detector.
package c13

import (
	"bytes"
	"encoding/json"
	"fmt"
	"hash/crc32"
	"io"
	"log"
	"os"
	"path/filepath"
	"regexp"
	"strconv"
	"strings"
	"sync"
	"sync/atomic"
	"testing"
	"time"

	"github.com/go-logr/logr"
	"github.com/go-logr/stdr"
	"github.com/hashicorp/go-hclog"
	"github.com/sirupsen/logrus"
	"go.uber.org/zap"
	"go.uber.org/zap/zapcore"
	"golang.org/x/exp/slog"
	"pgregory.net/rapid"

	"github.com/ARM-software/golang-utils/utils/logs"

	"verif/internal/ev"
)

const prop = "C13"

func TestMain(m *testing.M) { ev.Main(m) }

// Config describes a logger under test; composites hold members.
type Config struct {
	Kind    string   `json:"kind"`
	Members []Config `json:"members,omitempty"`
	Ring    int      `json:"ring,omitempty"`
	SlowUs  int      `json:"slow_sink_us,omitempty"`
}

type Op struct {
	Kind string  `json:"op"` // log | err | logsource | loggersource | append | appendlogr
	Len  int     `json:"len,omitempty"`
	New  *Config `json:"new_member,omitempty"`
	// N: append: that many members (of the kind New) in ONE Append call; appendlogr: that many logr loggers in ONE AppendLogger call
	N int `json:"n,omitempty"`
}

type Case struct {
	Logger    Config `json:"logger"`
	Producers int    `json:"producers"`
	Scripts   [][]Op `json:"scripts"` // cycled over producers
}

// ---- captures ------------------------------------------------------------------------------------------------------

type capture struct {
	mu     sync.Mutex
	buf    bytes.Buffer
	slow   time.Duration
	writes atomic.Int64
}

func (c *capture) Write(p []byte) (int, error) {
	if c.slow > 0 {
		time.Sleep(c.slow)
	}
	c.mu.Lock()
	defer c.mu.Unlock()
	c.writes.Add(1)
	return c.buf.Write(p)
}
func (c *capture) Sync() error            { return nil }
func (c *capture) Close() error           { return nil }
func (c *capture) SetSource(string) error { return nil }
func (c *capture) String() string         { c.mu.Lock(); defer c.mu.Unlock(); return c.buf.String() }
func (c *capture) Len() int               { c.mu.Lock(); defer c.mu.Unlock(); return c.buf.Len() }

// leaf is one place where messages end up.
type leaf struct {
	name     string
	out, err func() string // content of the sink(s); may be the same function for both streams
	same     bool          // both streams share one sink
	wantOut  bool          // Log reaches the sink
	wantErr  bool          // LogError reaches the sink
	async    bool          // ring buffered: may drop, must report
	dropped  *droppedCounter
	ring     int   // ring-buffered: capacity of the ring
	since    int64 // logical time from which the leaf is a member (0 = from the start); before joinBegin: must not receive
	joinFrom int64 // logical time at which the Append that added it began
}

var (
	pastMu   sync.Mutex
	pastDirs []string // directories of the file sinks of earlier cases of this process
)

type droppedCounter struct {
	mu    sync.Mutex
	total int64
	lines []string
	// text: when set, the reports are read from this text (a captured stream) instead of being received as messages
	text func() string
}

var droppedRe = regexp.MustCompile(`Logger dropped (\d+) messages`)

func (d *droppedCounter) Check() error                 { return nil }
func (d *droppedCounter) Close() error                 { return nil }
func (d *droppedCounter) SetLogSource(string) error    { return nil }
func (d *droppedCounter) SetLoggerSource(string) error { return nil }
func (d *droppedCounter) Log(...interface{})           {}
func (d *droppedCounter) LogError(a ...interface{}) {
	s := fmt.Sprint(a...)
	d.mu.Lock()
	defer d.mu.Unlock()
	d.lines = append(d.lines, s)
	if m := droppedRe.FindStringSubmatch(s); m != nil {
		n, _ := strconv.ParseInt(m[1], 10, 64)
		d.total += n
	}
}
func (d *droppedCounter) Total() int64 {
	d.mu.Lock()
	defer d.mu.Unlock()
	if d.text != nil {
		var n int64
		for _, m := range droppedRe.FindAllStringSubmatch(d.text(), -1) {
			k, _ := strconv.ParseInt(m[1], 10, 64)
			n += k
		}
		return n
	}
	return d.total
}

// stdio capture: os.Stdout / os.Stderr are swapped for pipes before the logger is constructed.
type stdio struct {
	oldOut, oldErr *os.File
	wOut, wErr     *os.File
	out, err       *capture
	wg             sync.WaitGroup
}

func swapStdio() *stdio {
	s := &stdio{oldOut: os.Stdout, oldErr: os.Stderr, out: &capture{}, err: &capture{}}
	rOut, wOut, _ := os.Pipe()
	rErr, wErr, _ := os.Pipe()
	s.wOut, s.wErr = wOut, wErr
	os.Stdout, os.Stderr = wOut, wErr
	for _, p := range []struct {
		r *os.File
		c *capture
	}{{rOut, s.out}, {rErr, s.err}} {
		s.wg.Add(1)
		go func(r *os.File, c *capture) {
			defer s.wg.Done()
			_, _ = io.Copy(c, r)
			_ = r.Close()
		}(p.r, p.c)
	}
	return s
}

func (s *stdio) restore() {
	os.Stdout, os.Stderr = s.oldOut, s.oldErr
	_ = s.wOut.Close()
	_ = s.wErr.Close()
	s.wg.Wait()
}

// ---- construction -----------------------------------------------------------------------------------------------------

type built struct {
	logger  logs.Loggers
	leaves  []*leaf
	closers []func()
}

type builder struct {
	dir string
	// closeFirst: loggers with goroutines of their own that use os.Stdout / os.Stderr: they are closed (after everything
	// has settled) before the standard streams are put back
	closeFirst []logs.Loggers
	std        *stdio
	n          int
	extra      []func()
}

func (b *builder) fresh() string { b.n++; return fmt.Sprintf("l%d", b.n) }

func (b *builder) build(c Config) (logs.Loggers, []*leaf, error) {
	name := b.fresh() + ":" + c.Kind
	both := func(cp *capture) *leaf {
		return &leaf{name: name, out: cp.String, err: cp.String, same: true, wantOut: true, wantErr: true}
	}
	switch c.Kind {
	case "string", "plainstring":
		var l *logs.StringLoggers
		var err error
		if c.Kind == "string" {
			l, err = logs.NewStringLogger("src")
		} else {
			l, err = logs.NewPlainStringLogger()
		}
		if err != nil {
			return nil, nil, err
		}
		return l, []*leaf{{name: name, out: l.GetLogContent, err: l.GetLogContent, same: true, wantOut: true, wantErr: true}}, nil
	case "std", "pipe":
		if b.std == nil {
			b.std = swapStdio()
		}
		var l logs.Loggers
		var err error
		if c.Kind == "std" {
			l, err = logs.NewStdLogger("src")
		} else {
			l, err = logs.NewPipeLogger()
		}
		return l, []*leaf{{name: name, out: b.std.out.String, err: b.std.err.String, wantOut: true, wantErr: true}}, err
	case "asyncstd":
		// the asynchronous logger over the standard streams: what it drops can only be reported on those streams
		if b.std == nil {
			b.std = swapStdio()
		}
		l, err := logs.NewAsynchronousStdLogger("src", c.Ring, 200*time.Microsecond, "log-src")
		if err == nil {
			b.closeFirst = append(b.closeFirst, l)
		}
		dc := &droppedCounter{text: b.std.err.String}
		return l, []*leaf{{name: name, out: b.std.out.String, err: b.std.err.String, wantOut: true, wantErr: true, async: true, dropped: dc, ring: c.Ring}}, err
	case "file", "fileonly":
		p := filepath.Join(b.dir, b.fresh()+".log")
		var l logs.Loggers
		var err error
		if c.Kind == "file" {
			// logrus also writes to os.Stderr: not captured here, the file is the sink under test
			if b.std == nil {
				b.std = swapStdio()
			}
			l, err = logs.NewFileLogger(p, "src")
		} else {
			l, err = logs.NewFileOnlyLogger(p, "src")
		}
		read := func() string { d, _ := os.ReadFile(p); return string(d) }
		return l, []*leaf{{name: name, out: read, err: read, same: true, wantOut: true, wantErr: true}}, err
	case "json":
		cp := &capture{}
		l, err := logs.NewJSONLogger(cp, "src", "log-src")
		return l, []*leaf{both(cp)}, err
	case "zap":
		cp := &capture{}
		core := zapcore.NewCore(zapcore.NewJSONEncoder(zap.NewProductionEncoderConfig()), zapcore.Lock(cp), zapcore.DebugLevel)
		l, err := logs.NewZapLogger(zap.New(core), "src")
		return l, []*leaf{both(cp)}, err
	case "logrus":
		cp := &capture{}
		lg := logrus.New()
		lg.SetOutput(cp)
		l, err := logs.NewLogrusLogger(lg, "src")
		return l, []*leaf{both(cp)}, err
	case "hclog":
		cp := &capture{}
		l, err := logs.NewHclogLogger(hclog.New(&hclog.LoggerOptions{Output: cp, Level: hclog.Debug}), "src")
		return l, []*leaf{both(cp)}, err
	case "slog":
		cp := &capture{}
		l, err := logs.NewSlogLogger(slog.New(slog.NewTextHandler(cp, nil)), "src")
		return l, []*leaf{both(cp)}, err
	case "stdr":
		cp := &capture{}
		l, err := logs.NewLogrLogger(stdr.New(log.New(cp, "", 0)), "src")
		return l, []*leaf{both(cp)}, err
	case "noop":
		l, err := logs.NewNoopLogger("src")
		return l, nil, err
	case "quiet":
		inner, leaves, err := b.build(c.Members[0])
		if err != nil {
			return nil, nil, err
		}
		for _, lf := range leaves {
			lf.wantOut = false
		}
		l, err := logs.NewQuietLogger(inner)
		return l, leaves, err
	case "async", "jsonslow":
		o, e := &capture{slow: time.Duration(c.SlowUs) * time.Microsecond}, &capture{slow: time.Duration(c.SlowUs) * time.Microsecond}
		dc := &droppedCounter{}
		var l logs.Loggers
		var err error
		if c.Kind == "async" {
			l, err = logs.NewAsynchronousLoggers(o, e, c.Ring, 200*time.Microsecond, "src", "log-src", dc)
			return l, []*leaf{{name: name, out: o.String, err: e.String, wantOut: true, wantErr: true, async: true, dropped: dc, ring: c.Ring}}, err
		}
		l, err = logs.NewJSONLoggerForSlowWriter(o, c.Ring, 200*time.Microsecond, "src", "log-src", dc)
		return l, []*leaf{{name: name, out: o.String, err: o.String, same: true, wantOut: true, wantErr: true, async: true, dropped: dc, ring: c.Ring}}, err
	case "multiple", "combined":
		var members []logs.Loggers
		var leaves []*leaf
		for _, m := range c.Members {
			l, lf, err := b.build(m)
			if err != nil {
				return nil, nil, err
			}
			members = append(members, l)
			leaves = append(leaves, lf...)
		}
		var l logs.IMultipleLoggers
		var err error
		// the members are handed over in a slice of the caller with room to spare, which the caller goes on using
		// afterwards: the composite keeps the members it was given, not the caller's slice
		passed := make([]logs.Loggers, len(members), len(members)+4)
		copy(passed, members)
		if c.Kind == "multiple" {
			l, err = logs.NewMultipleLoggers("src", passed...)
		} else {
			l, err = logs.NewCombinedLoggers(passed...)
		}
		if noop, nerr := logs.NewNoopLogger("reused"); nerr == nil {
			for i := range passed {
				passed[i] = noop
			}
			_ = append(passed, noop, noop)
		}
		return l, leaves, err
	}
	return nil, nil, fmt.Errorf("unknown kind %q", c.Kind)
}

// ---- messages --------------------------------------------------------------------------------------------------------------

var msgRe = regexp.MustCompile(`p(\d+):(\d+):(\d+):([a-z%]*):([0-9a-f]{8})`)
var startRe = regexp.MustCompile(`p\d+:\d+:\d+:`)
var hintRe = regexp.MustCompile(`p\d+:\d+:`)

// (a percent sign now and then: a message is data, not a format string)
const alphabet = "abcdefghijklmnopqrstuvwxyz%"

func message(p, seq, n int) string {
	var sb strings.Builder
	for i := 0; i < n; i++ {
		sb.WriteByte(alphabet[(p*7+seq*13+i*i)%27])
	}
	body := fmt.Sprintf("p%d:%d:%d:%s", p, seq, n, sb.String())
	return fmt.Sprintf("%s:%08x", body, crc32.ChecksumIEEE([]byte(body)))
}

type sent struct {
	id    string
	isErr bool
	begin int64 // logical time before the call
	end   int64 // logical time after the call returned
}

// parse extracts the messages of a sink; it reports lines that are not exactly one intact message.
func parse(content string) (ids map[string]int, bad []string) {
	ids = map[string]int{}
	for _, line := range strings.Split(content, "\n") {
		if !strings.Contains(line, "p") || !hintRe.MatchString(line) {
			continue // framing lines of the loggers (sources, etc.)
		}
		ms := msgRe.FindAllStringSubmatch(line, -1)
		starts := startRe.FindAllString(line, -1)
		if len(ms) != 1 || len(starts) != 1 {
			bad = append(bad, trunc(line))
			continue
		}
		m := ms[0]
		body := fmt.Sprintf("p%s:%s:%s:%s", m[1], m[2], m[3], m[4])
		n, _ := strconv.Atoi(m[3])
		if len(m[4]) != n || fmt.Sprintf("%08x", crc32.ChecksumIEEE([]byte(body))) != m[5] {
			bad = append(bad, trunc(line))
			continue
		}
		ids["p"+m[1]+":"+m[2]]++
	}
	return
}

func trunc(s string) string {
	if len(s) > 160 {
		return s[:80] + " ... " + s[len(s)-60:]
	}
	return s
}

// ---- the check ------------------------------------------------------------------------------------------------------------------

func checkCase(t ev.T, test string, c Case) {
	// stall monitor: the largest scheduling gap seen by a 2 ms ticker of this process while the case runs
	var maxGap atomic.Int64
	monitorStop := make(chan struct{})
	defer close(monitorStop)
	go func() {
		last := time.Now()
		for {
			select {
			case <-monitorStop:
				return
			case <-time.After(2 * time.Millisecond):
			}
			now := time.Now()
			if g := int64(now.Sub(last)); g > maxGap.Load() {
				maxGap.Store(g)
			}
			last = now
		}
	}()
	dir, _ := os.MkdirTemp("", "c13-")
	defer func() {
		os.RemoveAll(dir)
		pastMu.Lock()
		if pastDirs = append(pastDirs, dir); len(pastDirs) > 64 {
			pastDirs = pastDirs[1:]
		}
		pastMu.Unlock()
	}()
	b := &builder{dir: dir}
	var logger logs.Loggers
	var leaves []*leaf
	var berr error
	func() {
		defer func() {
			if r := recover(); r != nil {
				berr = fmt.Errorf("panic: %v", r)
			}
		}()
		logger, leaves, berr = b.build(c.Logger)
	}()
	restored := false
	restore := func() {
		if b.std != nil && !restored {
			restored = true
			b.std.restore()
		}
	}
	defer restore()
	if berr != nil {
		restore()
		ev.Fail(t, prop, test, c, "constructing the logger failed: %v", berr)
	}
	var clock atomic.Int64
	var mu sync.Mutex
	var all []sent
	var leafMu sync.Mutex
	var wg sync.WaitGroup
	multi, _ := logger.(logs.IMultipleLoggers)
	for p := 0; p < c.Producers; p++ {
		wg.Add(1)
		go func(p int, script []Op) {
			defer wg.Done()
			var mine []sent
			seq := 0
			for _, op := range script {
				switch op.Kind {
				case "log", "err":
					seq++
					msg := message(p, seq, op.Len)
					s := sent{id: fmt.Sprintf("p%d:%d", p, seq), isErr: op.Kind == "err", begin: clock.Add(1)}
					if op.Kind == "log" {
						logger.Log(msg)
					} else {
						logger.LogError(msg)
					}
					s.end = clock.Add(1)
					mine = append(mine, s)
				case "logsource":
					_ = logger.SetLogSource(fmt.Sprintf("log-src-%d", p%2))
				case "loggersource":
					_ = logger.SetLoggerSource(fmt.Sprintf("src-%d", p%2))
				case "append":
					if multi != nil && op.New != nil {
						var ls []logs.Loggers
						var lfs []*leaf
						leafMu.Lock()
						for k := 0; k < maxInt(1, op.N); k++ {
							if l, lf, err := b.build(*op.New); err == nil {
								ls, lfs = append(ls, l), append(lfs, lf...)
							}
						}
						leafMu.Unlock()
						if len(ls) > 0 {
							from := clock.Add(1)
							_ = multi.Append(ls...)
							since := clock.Add(1)
							leafMu.Lock()
							for _, x := range lfs {
								x.joinFrom, x.since = from, since
								leaves = append(leaves, x)
							}
							leafMu.Unlock()
						}
					}
				case "appendlogr":
					if multi != nil {
						var ls []logr.Logger
						var lfs []*leaf
						for k := 0; k < maxInt(1, op.N); k++ {
							cp := &capture{}
							ls = append(ls, stdr.New(log.New(cp, "", 0)))
							lf := &leaf{name: fmt.Sprintf("logr-appended-by-p%d-%d", p, k), out: cp.String, err: cp.String, same: true, wantOut: true, wantErr: true}
							lfs = append(lfs, lf)
						}
						from := clock.Add(1)
						aerr := multi.AppendLogger(ls...)
						since := clock.Add(1)
						if aerr == nil {
							// (a refused call - e.g. no logger source defined yet - adds nobody)
							leafMu.Lock()
							for _, x := range lfs {
								x.joinFrom, x.since = from, since
								leaves = append(leaves, x)
							}
							leafMu.Unlock()
						}
					}
				}
			}
			mu.Lock()
			all = append(all, mine...)
			mu.Unlock()
		}(p, c.Scripts[p%len(c.Scripts)])
	}
	done := make(chan struct{})
	go func() { wg.Wait(); close(done) }()
	select {
	case <-done:
	case <-time.After(60 * time.Second):
		restore()
		if time.Duration(maxGap.Load()) > 100*time.Millisecond {
			// (seen in the thorough tier on the shard confined to one processor, race detector on, machine load above 100)
			ev.Inconclusive("producers did not finish within 60 s on a visibly stalling machine: not judged")
			return
		}
		ev.Fail(t, prop, test, c, "producers did not finish within 60 s (a logger call blocked)")
	}
	// ring-buffered sinks: wait until they are quiet
	for _, lf := range leaves {
		if !lf.async {
			continue
		}
		// "quiet" = nothing new for 600 ms (on a loaded machine the goroutine draining the ring may not run for tens of
		// milliseconds: a short silence proves nothing), or everything sent is accounted for
		last, quiet := -1, 0
		deadline := time.Now().Add(15 * time.Second)
		for quiet < 300 && time.Now().Before(deadline) {
			o, e := lf.out(), lf.err()
			n := len(o) + len(e)
			lines := strings.Count(o, "\n")
			if !lf.same {
				lines += strings.Count(e, "\n")
			}
			if int64(lines)+lf.dropped.Total() >= int64(len(all)) {
				break
			}
			if n == last {
				quiet++
			} else {
				last, quiet = n, 0
			}
			time.Sleep(2 * time.Millisecond)
		}
	}
	for _, l := range b.closeFirst {
		_ = l.Close()
	}
	if len(b.closeFirst) > 0 {
		time.Sleep(5 * time.Millisecond)
	}
	restore()
	// a message is delivered to its own sink and to no other: the file sinks of the loggers of earlier cases (removed with
	// their directory) must not come back to life
	pastMu.Lock()
	for _, d := range pastDirs {
		if es, err := os.ReadDir(d); err == nil {
			var names []string
			for _, e := range es {
				names = append(names, e.Name())
			}
			os.RemoveAll(d)
			pastMu.Unlock()
			ev.Fail(t, prop, test, c, "the directory of the file sinks of an earlier logger (closed, its files removed) was re-created while this logger was in use: %s now holds %v - messages were also delivered to a sink of another logger", d, names)
		}
	}
	pastMu.Unlock()
	// judge every leaf
	for _, lf := range leaves {
		contents := []struct {
			stream string
			text   string
			want   bool
			isErr  []bool
		}{}
		if lf.same {
			contents = append(contents, struct {
				stream string
				text   string
				want   bool
				isErr  []bool
			}{"both", lf.out(), true, nil})
		} else {
			contents = append(contents, struct {
				stream string
				text   string
				want   bool
				isErr  []bool
			}{"out", lf.out(), true, []bool{false}}, struct {
				stream string
				text   string
				want   bool
				isErr  []bool
			}{"err", lf.err(), true, []bool{true}})
		}
		for _, ct := range contents {
			ids, bad := parse(ct.text)
			if len(bad) > 0 {
				ev.Fail(t, prop, test, c, "sink %s/%s: %d line(s) do not hold exactly one intact message (truncated or interleaved), e.g. %q", lf.name, ct.stream, len(bad), bad[0])
			}
			var missing, unexpected, dup []string
			sentCount, gotCount := 0, 0
			for _, s := range all {
				if ct.stream == "out" && s.isErr || ct.stream == "err" && !s.isErr {
					if ids[s.id] > 0 {
						unexpected = append(unexpected, s.id+"(wrong stream)")
					}
					continue
				}
				wanted := (s.isErr && lf.wantErr) || (!s.isErr && lf.wantOut)
				n := ids[s.id]
				delete(ids, s.id)
				mustHave := wanted && (lf.since == 0 || s.begin > lf.since)
				mustNot := !wanted || (lf.joinFrom != 0 && s.end < lf.joinFrom)
				if mustHave {
					sentCount++
					gotCount += n
				}
				switch {
				case n > 1:
					dup = append(dup, fmt.Sprintf("%s x%d", s.id, n))
				case mustHave && n == 0:
					missing = append(missing, s.id)
				case mustNot && n > 0:
					unexpected = append(unexpected, s.id)
				}
			}
			for id := range ids {
				unexpected = append(unexpected, id+"(never sent)")
			}
			if len(dup) > 0 {
				ev.Fail(t, prop, test, c, "sink %s/%s: messages delivered more than once: %v", lf.name, ct.stream, head(dup))
			}
			if len(unexpected) > 0 {
				ev.Fail(t, prop, test, c, "sink %s/%s: messages that should not be there: %v", lf.name, ct.stream, head(unexpected))
			}
			if len(missing) > 0 {
				if lf.async {
					// drops are allowed only if they were reported
					if rep := lf.dropped.Total(); int64(len(missing)) > rep {
						// The ring (zerolog's diode) counts what it drops by sequence-number gaps; with several producers
						// lapping a small ring its count is approximate: in isolation it over-reports ("Diode set collision"),
						// and once, in a thorough run on an overloaded machine, 14 messages of a 16-slot ring with 32
						// producers were neither delivered nor reported, which could be reproduced neither with the
						// library nor with the ring alone. A discrepancy of at most one ring, after the ring was lapped by
						// several producers and while this process was visibly stalled (a 2 ms ticker delayed by more than 20 ms), is
						// therefore counted as inconclusive, not as a violation; anything larger, or on a machine that keeps up,
						// (a report of zero, a whole stream unreported) still is one.
						if un := int64(len(missing)) - rep; c.Producers >= 2 && lf.ring > 0 && sentCount > lf.ring && un <= int64(lf.ring) && time.Duration(maxGap.Load()) > 20*time.Millisecond {
							ev.Inconclusive("ring accounting off by at most one ring on a stalling machine (cannot be attributed)")
							continue
						}
						ev.Fail(t, prop, test, c, "ring-buffered sink %s/%s lost %d of %d messages but reported only %d dropped", lf.name, ct.stream, len(missing), sentCount, rep)
					}
					ev.Class("async-dropped-and-reported")
				} else {
					ev.Fail(t, prop, test, c, "sink %s/%s lost %d of %d messages: %v", lf.name, ct.stream, len(missing), sentCount, head(missing))
				}
			}
		}
	}
}

func head(s []string) []string {
	if len(s) > 5 {
		return append(s[:5:5], fmt.Sprintf("... %d more", len(s)-5))
	}
	return s
}

// ---- generators -------------------------------------------------------------------------------------------------------------------

var leafKinds = []string{"string", "plainstring", "std", "pipe", "file", "fileonly", "json", "zap", "logrus", "hclog", "slog", "stdr", "noop", "quiet", "async", "jsonslow", "asyncstd"}

func genLeaf(t *rapid.T, label string, allowStd *bool) Config {
	for {
		k := rapid.SampledFrom(leafKinds).Draw(t, label)
		if k == "std" || k == "pipe" || k == "file" || k == "asyncstd" {
			if !*allowStd {
				continue
			}
			*allowStd = false
		}
		c := Config{Kind: k}
		switch k {
		case "quiet":
			inner := rapid.SampledFrom([]string{"string", "json", "zap", "slog", "plainstring"}).Draw(t, label+"-inner")
			c.Members = []Config{{Kind: inner}}
		case "async", "jsonslow", "asyncstd":
			c.Ring = rapid.SampledFrom([]int{1, 2, 4, 16, 64, 1024}).Draw(t, label+"-ring")
			c.SlowUs = rapid.SampledFrom([]int{0, 0, 20, 200}).Draw(t, label+"-slow")
		}
		return c
	}
}

func genConfig(t *rapid.T) Config {
	allowStd := true
	switch rapid.IntRange(0, 2).Draw(t, "shape") {
	case 0:
		return genLeaf(t, "leaf", &allowStd)
	default:
		c := Config{Kind: rapid.SampledFrom([]string{"multiple", "combined"}).Draw(t, "composite")}
		n := rapid.IntRange(1, 4).Draw(t, "members")
		for i := 0; i < n; i++ {
			if rapid.IntRange(0, 5).Draw(t, fmt.Sprintf("nested%d", i)) == 0 {
				inner := Config{Kind: rapid.SampledFrom([]string{"multiple", "combined"}).Draw(t, fmt.Sprintf("inner-kind%d", i))}
				m := rapid.IntRange(1, 3).Draw(t, fmt.Sprintf("inner-n%d", i))
				for j := 0; j < m; j++ {
					inner.Members = append(inner.Members, genLeaf(t, fmt.Sprintf("inner%d-%d", i, j), &allowStd))
				}
				c.Members = append(c.Members, inner)
			} else {
				c.Members = append(c.Members, genLeaf(t, fmt.Sprintf("member%d", i), &allowStd))
			}
		}
		return c
	}
}

func genCase(t *rapid.T) Case {
	c := Case{Logger: genConfig(t), Producers: rapid.SampledFrom([]int{2, 2, 3, 4, 4, 8, 8, 16, 32}).Draw(t, "producers")}
	ns := rapid.IntRange(1, 3).Draw(t, "scripts")
	composite := c.Logger.Kind == "multiple" || c.Logger.Kind == "combined"
	for s := 0; s < ns; s++ {
		var script []Op
		n := rapid.IntRange(20, 80).Draw(t, fmt.Sprintf("len%d", s))
		if c.Producers >= 16 {
			n = 20 + n/4
		}
		sourceOps := 0
		for i := 0; i < n; i++ {
			k := rapid.SampledFrom([]string{"log", "log", "log", "err", "err", "err", "logsource", "loggersource", "append", "appendlogr"}).Draw(t, fmt.Sprintf("op%d-%d", s, i))
			if k == "logsource" || k == "loggersource" {
				// logr based loggers append every new source to their name: a handful of changes per producer is
				// enough to race with the log calls, more only makes every line kilobytes long
				sourceOps++
				if sourceOps > 2 {
					k = "err"
				}
			}
			op := Op{Kind: k}
			switch k {
			case "log", "err":
				op.Len = rapid.SampledFrom([]int{1, 5, 40, 40, 40, 300, 300, 4096}).Draw(t, fmt.Sprintf("ml%d-%d", s, i))
			case "append":
				if !composite || rapid.IntRange(0, 3).Draw(t, fmt.Sprintf("really%d-%d", s, i)) > 0 {
					op.Kind = "log"
					op.Len = 10
				} else {
					nk := rapid.SampledFrom([]string{"string", "json", "zap", "plainstring", "slog"}).Draw(t, fmt.Sprintf("nk%d-%d", s, i))
					op.New = &Config{Kind: nk}
					op.N = rapid.SampledFrom([]int{1, 1, 2, 3}).Draw(t, fmt.Sprintf("nn%d-%d", s, i))
				}
			case "appendlogr":
				if !composite || rapid.IntRange(0, 3).Draw(t, fmt.Sprintf("reallyl%d-%d", s, i)) > 0 {
					op.Kind = "log"
					op.Len = 10
				} else {
					op.N = rapid.SampledFrom([]int{1, 2, 2, 3}).Draw(t, fmt.Sprintf("nl%d-%d", s, i))
				}
			}
			script = append(script, op)
		}
		c.Scripts = append(c.Scripts, script)
	}
	return c
}

func kinds(c Config, into map[string]bool) {
	into[c.Kind] = true
	for _, m := range c.Members {
		kinds(m, into)
	}
}

func replayCase(t ev.T, raw json.RawMessage) {
	var c Case
	if err := json.Unmarshal(raw, &c); err != nil {
		t.Fatalf("HARNESS: %v", err)
	}
	for i := 0; i < 5; i++ { // schedule dependent
		checkCase(t, "TestLoggers", c)
	}
}

func init() { ev.RegisterReplay("TestLoggers", replayCase) }

func TestReplay(t *testing.T)      { ev.RunReplay(t) }
func TestRegressions(t *testing.T) { ev.Regressions(t, prop) }

func TestLoggers(t *testing.T) {
	rapid.Check(t, func(rt *rapid.T) {
		c := genCase(rt)
		key, _ := json.Marshal(c)
		ks := map[string]bool{}
		kinds(c.Logger, ks)
		ev.Case(string(key), c.Producers >= 2, "loggers", nil)
		for k := range ks {
			ev.Class("kind:" + k)
		}
		t0 := time.Now()
		checkCase(rt, "TestLoggers", c)
		if d := time.Since(t0); d > 500*time.Millisecond && os.Getenv("C13_SLOW") != "" {
			kk, _ := json.Marshal(c.Logger)
			fmt.Fprintf(os.Stderr, "SLOW %v producers=%d %s\n", d, c.Producers, kk)
		}
	})
}

// TestEveryConstructor runs a fixed concurrent workload against every leaf kind and both composites.
func TestEveryConstructor(t *testing.T) {
	script := func(seed int) []Op {
		var s []Op
		for i := 0; i < 60; i++ {
			k := []string{"log", "err", "log", "err", "logsource", "loggersource"}[(i+seed)%6]
			s = append(s, Op{Kind: k, Len: []int{3, 80, 1000}[i%3]})
		}
		return s
	}
	var n int64
	for _, k := range leafKinds {
		c := Config{Kind: k}
		switch k {
		case "quiet":
			c.Members = []Config{{Kind: "string"}}
		case "async", "jsonslow", "asyncstd":
			c.Ring = 8
		}
		for _, wrap := range []string{"", "multiple", "combined"} {
			cfg := c
			if wrap != "" {
				cfg = Config{Kind: wrap, Members: []Config{c, {Kind: "json"}}}
			}
			cs := Case{Logger: cfg, Producers: 8, Scripts: [][]Op{script(0), script(1), script(2)}}
			checkCase(t, "TestLoggers", cs)
			n++
			if n <= 3 {
				ev.Sample(map[string]any{"logger": cfg, "producers": 8, "script_ops": 60})
			}
		}
	}
	ev.Bulk(n, n, "every-constructor")
}

func maxInt(a, b int) int {
	if a > b {
		return a
	}
	return b
}
