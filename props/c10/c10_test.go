// Package c10 decides C10 (numeric conversions saturate: never wrap, never panic,
// monotonic) by enumeration of the small source kinds, boundary sweeps of the large
// ones and rapid draws, against a math/big reference.
package c10

import (
	"encoding/json"
	"fmt"
	"math"
	"math/big"
	"testing"

	"github.com/ARM-software/golang-utils/utils/safecast"
	"pgregory.net/rapid"

	"verif/internal/ev"
)

const prop = "C10"

func TestMain(m *testing.M) { ev.Main(m) }

type (
	NInt     int
	NInt8    int8
	NInt16   int16
	NInt32   int32
	NInt64   int64
	NUint    uint
	NUint8   uint8
	NUint16  uint16
	NUint32  uint32
	NUint64  uint64
	NFloat32 float32
	NFloat64 float64
)

// target describes one of the ten conversion targets.
type target struct {
	name     string
	unsigned bool
	lo       int64  // minimum (0 for unsigned)
	hi       uint64 // maximum
}

var targets = []target{
	{"int", false, math.MinInt, math.MaxInt},
	{"int8", false, math.MinInt8, math.MaxInt8},
	{"int16", false, math.MinInt16, math.MaxInt16},
	{"int32", false, math.MinInt32, math.MaxInt32},
	{"int64", false, math.MinInt64, math.MaxInt64},
	{"uint", true, 0, math.MaxUint},
	{"uint8", true, 0, math.MaxUint8},
	{"uint16", true, 0, math.MaxUint16},
	{"uint32", true, 0, math.MaxUint32},
	{"uint64", true, 0, math.MaxUint64},
}

// result of a conversion, normalised: signed targets in s, unsigned in u.
type result struct {
	s int64
	u uint64
}

const (
	kSigned = iota
	kUnsigned
	kFloat
)

// source describes one of the 24 source kinds (12 predeclared + 12 named).
type source struct {
	name  string
	bits  int
	class int
	named bool
	// conv converts the value whose raw representation is raw (two's complement
	// low bits for integers, IEEE bits for floats) to target index ti.
	conv func(raw uint64, ti int) result
}

func convAll[S safecast.IConvertable](v S, ti int) result {
	switch ti {
	case 0:
		return result{s: int64(safecast.ToInt(v))}
	case 1:
		return result{s: int64(safecast.ToInt8(v))}
	case 2:
		return result{s: int64(safecast.ToInt16(v))}
	case 3:
		return result{s: int64(safecast.ToInt32(v))}
	case 4:
		return result{s: safecast.ToInt64(v)}
	case 5:
		return result{u: uint64(safecast.ToUint(v))}
	case 6:
		return result{u: uint64(safecast.ToUint8(v))}
	case 7:
		return result{u: uint64(safecast.ToUint16(v))}
	case 8:
		return result{u: uint64(safecast.ToUint32(v))}
	default:
		return result{u: safecast.ToUint64(v)}
	}
}

func intSource[S safecast.IInteger](name string, bits int, signed, named bool) source {
	class := kUnsigned
	if signed {
		class = kSigned
	}
	return source{name, bits, class, named, func(raw uint64, ti int) result { return convAll(S(raw), ti) }}
}

func f32Source[S ~float32](name string, named bool) source {
	return source{name, 32, kFloat, named, func(raw uint64, ti int) result {
		return convAll(S(math.Float32frombits(uint32(raw))), ti)
	}}
}

func f64Source[S ~float64](name string, named bool) source {
	return source{name, 64, kFloat, named, func(raw uint64, ti int) result {
		return convAll(S(math.Float64frombits(raw)), ti)
	}}
}

var sources = []source{
	intSource[int]("int", 64, true, false), intSource[int8]("int8", 8, true, false),
	intSource[int16]("int16", 16, true, false), intSource[int32]("int32", 32, true, false),
	intSource[int64]("int64", 64, true, false),
	intSource[uint]("uint", 64, false, false), intSource[uint8]("uint8", 8, false, false),
	intSource[uint16]("uint16", 16, false, false), intSource[uint32]("uint32", 32, false, false),
	intSource[uint64]("uint64", 64, false, false),
	f32Source[float32]("float32", false), f64Source[float64]("float64", false),
	intSource[NInt]("named-int", 64, true, true), intSource[NInt8]("named-int8", 8, true, true),
	intSource[NInt16]("named-int16", 16, true, true), intSource[NInt32]("named-int32", 32, true, true),
	intSource[NInt64]("named-int64", 64, true, true),
	intSource[NUint]("named-uint", 64, false, true), intSource[NUint8]("named-uint8", 8, false, true),
	intSource[NUint16]("named-uint16", 16, false, true), intSource[NUint32]("named-uint32", 32, false, true),
	intSource[NUint64]("named-uint64", 64, false, true),
	f32Source[NFloat32]("named-float32", true), f64Source[NFloat64]("named-float64", true),
	// two distinct named types that print alike (function-local types of the same name): a conversion must go by the type,
	// not by what it is called
	localUintSource(), localFloatSource(),
}

func localUintSource() source {
	type Level uint64
	return intSource[Level]("local-Level-uint64", 64, false, true)
}

func localFloatSource() source {
	type Level float64
	return f64Source[Level]("local-Level-float64", true)
}

func sourceByName(n string) *source {
	for i := range sources {
		if sources[i].name == n {
			return &sources[i]
		}
	}
	return nil
}

func targetIndex(n string) int {
	for i := range targets {
		if targets[i].name == n {
			return i
		}
	}
	return -1
}

// ---- reference -------------------------------------------------------------------

// exact decodes raw into the mathematical value: an integer part truncated toward
// zero (big.Int), or an infinity / NaN marker.
func (s *source) exact(raw uint64) (v *big.Int, inf int, nan bool) {
	switch s.class {
	case kSigned:
		shift := uint(64 - s.bits)
		return big.NewInt(int64(raw<<shift) >> shift), 0, false
	case kUnsigned:
		if s.bits < 64 {
			raw &= (1 << uint(s.bits)) - 1
		}
		return new(big.Int).SetUint64(raw), 0, false
	default:
		var f float64
		if s.bits == 32 {
			f = float64(math.Float32frombits(uint32(raw)))
		} else {
			f = math.Float64frombits(raw)
		}
		if math.IsNaN(f) {
			return nil, 0, true
		}
		if math.IsInf(f, 1) {
			return nil, 1, false
		}
		if math.IsInf(f, -1) {
			return nil, -1, false
		}
		bi, _ := new(big.Float).SetFloat64(f).Int(nil) // truncates toward zero
		return bi, 0, false
	}
}

func (tg *target) bounds() (lo, hi *big.Int) {
	return big.NewInt(tg.lo), new(big.Int).SetUint64(tg.hi)
}

// reference computes the expected result with math/big; ok=false for NaN (only "no
// panic" is required there).
func reference(s *source, raw uint64, tg *target) (want *big.Int, ok bool) {
	v, inf, nan := s.exact(raw)
	if nan {
		return nil, false
	}
	lo, hi := tg.bounds()
	switch {
	case inf > 0:
		return hi, true
	case inf < 0:
		return lo, true
	case v.Cmp(lo) < 0:
		return lo, true
	case v.Cmp(hi) > 0:
		return hi, true
	}
	return v, true
}

func (r result) big(tg *target) *big.Int {
	if tg.unsigned {
		return new(big.Int).SetUint64(r.u)
	}
	return big.NewInt(r.s)
}

// near tells whether the value is within 2^12 of a bound of the target or outside
// its range: the non-triviality rule of this property.
func near(s *source, raw uint64, tg *target) bool {
	v, inf, nan := s.exact(raw)
	if nan {
		return false
	}
	if inf != 0 {
		return true
	}
	lo, hi := tg.bounds()
	w := big.NewInt(1 << 12)
	d := new(big.Int)
	if v.Cmp(lo) < 0 || v.Cmp(hi) > 0 {
		return true
	}
	if d.Sub(v, lo).CmpAbs(w) <= 0 {
		return true
	}
	if d.Sub(hi, v).CmpAbs(w) <= 0 {
		return true
	}
	return false
}

// ---- single-case oracle (also the replayer) ----------------------------------------

type oneCase struct {
	Source string `json:"source"`
	Target string `json:"target"`
	Raw    string `json:"raw"` // hex of the raw representation
	Value  string `json:"value,omitempty"`
}

func mkCase(s *source, raw uint64, ti int) oneCase {
	c := oneCase{Source: s.name, Target: targets[ti].name, Raw: fmt.Sprintf("%#x", raw)}
	if v, inf, nan := s.exact(raw); nan {
		c.Value = "NaN"
	} else if inf != 0 {
		c.Value = fmt.Sprintf("%dInf", inf)
	} else if s.class == kFloat {
		if s.bits == 32 {
			c.Value = fmt.Sprintf("%g", math.Float32frombits(uint32(raw)))
		} else {
			c.Value = fmt.Sprintf("%g", math.Float64frombits(raw))
		}
	} else {
		c.Value = v.String()
	}
	return c
}

func checkOne(t ev.T, test string, s *source, raw uint64, ti int) {
	tg := &targets[ti]
	var got result
	ev.Guard(t, prop, test, mkCase(s, raw, ti), func() { got = s.conv(raw, ti) })
	want, ok := reference(s, raw, tg)
	if !ok {
		return
	}
	if got.big(tg).Cmp(want) != 0 {
		ev.Fail(t, prop, test, mkCase(s, raw, ti), "To%s(%s %s) = %s, reference (truncate, then clamp) = %s",
			tg.name, s.name, mkCase(s, raw, ti).Value, got.big(tg), want)
	}
}

func replayOne(t ev.T, raw json.RawMessage) {
	var c oneCase
	if err := json.Unmarshal(raw, &c); err != nil {
		t.Fatalf("HARNESS: %v", err)
	}
	s := sourceByName(c.Source)
	ti := targetIndex(c.Target)
	var r uint64
	if _, err := fmt.Sscanf(c.Raw, "0x%x", &r); err != nil || s == nil || ti < 0 {
		t.Fatalf("HARNESS: bad case %+v", c)
	}
	checkOne(t, "TestReplay", s, r, ti)
}

func init() {
	for _, n := range []string{"TestSmall", "TestBoundaries64", "TestRandom", "TestSweep32", "TestReplay", "FuzzConv"} {
		ev.RegisterReplay(n, replayOne)
	}
	ev.RegisterReplay("TestMonotonic", replayMono)
}

func TestReplay(t *testing.T)      { ev.RunReplay(t) }
func TestRegressions(t *testing.T) { ev.Regressions(t, prop) }

// ---- fast reference for sweeps -------------------------------------------------------

// fastWant computes the expected result without big numbers. Cross-checked against
// the big reference by TestFastReferenceAgrees on every boundary window.
func fastWant(s *source, raw uint64, tg *target) (r result, ok bool) {
	switch s.class {
	case kSigned:
		shift := uint(64 - s.bits)
		v := int64(raw<<shift) >> shift
		if tg.unsigned {
			if v < 0 {
				return result{u: 0}, true
			}
			if uint64(v) > tg.hi {
				return result{u: tg.hi}, true
			}
			return result{u: uint64(v)}, true
		}
		if v < tg.lo {
			return result{s: tg.lo}, true
		}
		if v > 0 && uint64(v) > tg.hi {
			return result{s: int64(tg.hi)}, true
		}
		return result{s: v}, true
	case kUnsigned:
		v := raw
		if s.bits < 64 {
			v &= (1 << uint(s.bits)) - 1
		}
		if v > tg.hi {
			v = tg.hi
		}
		if tg.unsigned {
			return result{u: v}, true
		}
		return result{s: int64(v)}, true
	default:
		var f float64
		if s.bits == 32 {
			f = float64(math.Float32frombits(uint32(raw)))
		} else {
			f = math.Float64frombits(raw)
		}
		if f != f {
			return result{}, false
		}
		f = math.Trunc(f)
		// float64(hi) is exact for the small targets and rounds up to 2^63 / 2^64 for the
		// 64-bit ones; in both cases f >= float64(hi) means "clamp to hi" (truncated values
		// equal to a small hi clamp to themselves).
		if f >= float64(tg.hi) {
			if tg.unsigned {
				return result{u: tg.hi}, true
			}
			return result{s: int64(tg.hi)}, true
		}
		if f <= float64(tg.lo) {
			if tg.unsigned {
				return result{u: 0}, true
			}
			return result{s: tg.lo}, true
		}
		if tg.unsigned {
			return result{u: uint64(f)}, true
		}
		return result{s: int64(f)}, true
	}
}

func less(a, b result, tg *target) bool {
	if tg.unsigned {
		return a.u < b.u
	}
	return a.s < b.s
}

// ---- ordered raw sequences --------------------------------------------------------------

// ordered maps an index 0..count-1 to the raw representation of the index-th
// smallest value of the source kind (NaNs excluded for floats), for 8/16/32-bit kinds.
func (s *source) orderedCount() uint64 {
	if s.class == kFloat {
		// -Inf..-0 : 0x7f800000+1 patterns, +0..+Inf: same
		return 2 * (0x7f800000 + 1)
	}
	return 1 << uint(s.bits)
}

func (s *source) orderedRaw(i uint64) uint64 {
	switch s.class {
	case kSigned:
		half := uint64(1) << uint(s.bits-1)
		return (i - half) & ((1 << uint(s.bits)) - 1) // i=0 -> min
	case kUnsigned:
		return i
	default:
		const n = 0x7f800000 + 1
		if i < n {
			return 0x80000000 | (0x7f800000 - i) // -Inf first, -0 last
		}
		return i - n // +0 .. +Inf
	}
}

// sweepRange checks conversions of ordered indices [from,to) for every target with
// the fast reference, including monotonicity between consecutive values.
func sweepRange(t ev.T, test string, s *source, from, to, stride uint64) (n, nt int64) {
	var prev [10]result
	havePrev := false
	var prevRaw uint64
	for i := from; i < to; i += stride {
		raw := s.orderedRaw(i)
		for ti := range targets {
			tg := &targets[ti]
			got := s.conv(raw, ti)
			want, _ := fastWant(s, raw, tg)
			if got != want {
				checkOne(t, test, s, raw, ti) // reports with the big reference
				ev.Fail(t, prop, test, mkCase(s, raw, ti), "fast reference disagrees with big reference: got %+v fast %+v", got, want)
			}
			if havePrev && less(got, prev[ti], tg) {
				failMono(t, s, prevRaw, raw, ti, prev[ti], got)
			}
			prev[ti] = got
		}
		havePrev = true
		prevRaw = raw
		n += int64(len(targets))
	}
	return n, nt
}

type monoCase struct {
	Source string `json:"source"`
	Target string `json:"target"`
	RawA   string `json:"raw_smaller"`
	RawB   string `json:"raw_larger"`
	A, B   string
}

func failMono(t ev.T, s *source, ra, rb uint64, ti int, a, b result) {
	tg := &targets[ti]
	c := monoCase{s.name, tg.name, fmt.Sprintf("%#x", ra), fmt.Sprintf("%#x", rb), mkCase(s, ra, ti).Value, mkCase(s, rb, ti).Value}
	ev.Fail(t, prop, "TestMonotonic", c, "not monotonic: To%s(%s)=%s > To%s(%s)=%s", tg.name, c.A, a.big(tg), tg.name, c.B, b.big(tg))
}

func replayMono(t ev.T, raw json.RawMessage) {
	var c monoCase
	if err := json.Unmarshal(raw, &c); err != nil {
		t.Fatalf("HARNESS: %v", err)
	}
	s := sourceByName(c.Source)
	ti := targetIndex(c.Target)
	var ra, rb uint64
	fmt.Sscanf(c.RawA, "0x%x", &ra)
	fmt.Sscanf(c.RawB, "0x%x", &rb)
	a, b := s.conv(ra, ti), s.conv(rb, ti)
	if less(b, a, &targets[ti]) {
		failMono(t, s, ra, rb, ti, a, b)
	}
}

// ---- tests ----------------------------------------------------------------------------

// TestSmall: every value of every 8- and 16-bit source kind, all targets (exhaustive),
// with the big reference and monotonicity.
func TestSmall(t *testing.T) {
	shard, shards := ev.Shard()
	k := 0
	for si := range sources {
		s := &sources[si]
		if s.bits > 16 {
			continue
		}
		k++
		if k%shards != shard%shards {
			continue
		}
		cnt := s.orderedCount()
		var nt int64
		var prev [10]result
		for i := uint64(0); i < cnt; i++ {
			raw := s.orderedRaw(i)
			for ti := range targets {
				checkOne(t, "TestSmall", s, raw, ti)
				got := s.conv(raw, ti)
				if i > 0 && less(got, prev[ti], &targets[ti]) {
					failMono(t, s, s.orderedRaw(i-1), raw, ti, prev[ti], got)
				}
				prev[ti] = got
				if near(s, raw, &targets[ti]) {
					nt++
				}
			}
		}
		ev.Bulk(int64(cnt)*10, nt, "exhaustive-"+s.name)
		ev.Sample(mkCase(s, s.orderedRaw(cnt-1), 1))
	}
	ev.Exhaustive("all values of the 8- and 16-bit source kinds (predeclared and named) x 10 targets")
}

// boundaryRaws returns raw representations of values of source kind s around every
// range bound of every target, powers of two and their neighbours.
func boundaryRaws(s *source, window int) []uint64 {
	seen := map[uint64]bool{}
	var out []uint64
	add := func(r uint64) {
		if s.bits < 64 {
			r &= (1 << uint(s.bits)) - 1
		}
		if !seen[r] {
			seen[r] = true
			out = append(out, r)
		}
	}
	var centres []*big.Int
	for i := range targets {
		lo, hi := targets[i].bounds()
		centres = append(centres, lo, hi)
	}
	for p := 0; p <= 64; p++ {
		v := new(big.Int).Lsh(big.NewInt(1), uint(p))
		centres = append(centres, v, new(big.Int).Neg(v))
	}
	centres = append(centres, big.NewInt(0))
	if s.class != kFloat {
		lo, hi := new(big.Int), new(big.Int)
		if s.class == kSigned {
			lo.Neg(new(big.Int).Lsh(big.NewInt(1), uint(s.bits-1)))
			hi.Sub(new(big.Int).Lsh(big.NewInt(1), uint(s.bits-1)), big.NewInt(1))
		} else {
			hi.Sub(new(big.Int).Lsh(big.NewInt(1), uint(s.bits)), big.NewInt(1))
		}
		for ci, c := range centres {
			w := window
			if ci >= 20 { // powers of two: neighbours only
				w = 2
			}
			for d := -w; d <= w; d++ {
				v := new(big.Int).Add(c, big.NewInt(int64(d)))
				if v.Cmp(lo) < 0 || v.Cmp(hi) > 0 {
					continue
				}
				if v.Sign() < 0 {
					add(uint64(v.Int64()))
				} else {
					add(v.Uint64())
				}
			}
		}
		return out
	}
	// floats: the nearest representable value to each centre (+ fractions), and `window`
	// next-up / next-down neighbours of it.
	for ci, c := range centres {
		w := window
		if ci >= 20 {
			w = 2
		}
		f, _ := new(big.Float).SetInt(c).Float64()
		for _, base := range []float64{f, f + 0.5, f - 0.5, f + 0.999, f - 0.999} {
			if s.bits == 32 {
				b := float32(base)
				up, dn := b, b
				add(uint64(math.Float32bits(b)))
				for k := 0; k < w; k++ {
					up = math.Nextafter32(up, float32(math.Inf(1)))
					dn = math.Nextafter32(dn, float32(math.Inf(-1)))
					add(uint64(math.Float32bits(up)))
					add(uint64(math.Float32bits(dn)))
				}
			} else {
				up, dn := base, base
				add(math.Float64bits(base))
				for k := 0; k < w; k++ {
					up = math.Nextafter(up, math.Inf(1))
					dn = math.Nextafter(dn, math.Inf(-1))
					add(math.Float64bits(up))
					add(math.Float64bits(dn))
				}
			}
		}
	}
	specials := []float64{math.Inf(1), math.Inf(-1), 0, math.Copysign(0, -1), math.SmallestNonzeroFloat64, -math.SmallestNonzeroFloat64,
		math.MaxFloat64, -math.MaxFloat64, math.SmallestNonzeroFloat32, math.MaxFloat32, -math.MaxFloat32, math.NaN(), 1e19, 1.9e19, 2e19, -1e19, 9.3e18, -9.3e18, 1e300, -1e300}
	for _, f := range specials {
		if s.bits == 32 {
			add(uint64(math.Float32bits(float32(f))))
		} else {
			add(math.Float64bits(f))
		}
	}
	return out
}

// TestBoundaries64: 32- and 64-bit source kinds (named too): every value within
// `window` of each target bound, powers of two +-2, float neighbours, specials.
func TestBoundaries64(t *testing.T) {
	window := 1 << 12
	shard, shards := ev.Shard()
	k := 0
	for si := range sources {
		s := &sources[si]
		if s.bits < 32 {
			continue
		}
		k++
		if k%shards != shard%shards {
			continue
		}
		w := window
		if s.class == kFloat && !ev.Thorough() {
			w = 1 << 9 // five bases per centre already; thorough uses the full window
		}
		raws := boundaryRaws(s, w)
		var nt int64
		for _, raw := range raws {
			for ti := range targets {
				checkOne(t, "TestBoundaries64", s, raw, ti)
				// the fast reference must agree with the big one here (it is used alone in sweeps)
				if fw, ok := fastWant(s, raw, &targets[ti]); ok {
					if bw, _ := reference(s, raw, &targets[ti]); fw.big(&targets[ti]).Cmp(bw) != 0 {
						t.Fatalf("HARNESS: fast reference %v != big reference %v for %+v", fw, bw, mkCase(s, raw, ti))
					}
				}
				if near(s, raw, &targets[ti]) {
					nt++
				}
			}
		}
		ev.Bulk(int64(len(raws))*10, nt, "boundary-"+s.name)
		ev.Sample(mkCase(s, raws[len(raws)/2], 9))
	}
}

// TestMonotonicPairs: rapid draws pairs (a<=b) of 64-bit sources around boundaries
// and checks order preservation with the big reference for ordering the inputs.
func TestMonotonicPairs(t *testing.T) {
	rapid.Check(t, func(rt *rapid.T) {
		si := rapid.IntRange(0, len(sources)-1).Draw(rt, "source")
		s := &sources[si]
		ti := rapid.IntRange(0, 9).Draw(rt, "target")
		ra, rb := drawRaw(rt, s, "a"), drawRaw(rt, s, "b")
		va, ia, na := s.exact(ra)
		vb, ib, nb := s.exact(rb)
		if na || nb {
			return
		}
		cmp := 0
		switch {
		case ia != 0 || ib != 0:
			cmp = ia - ib
			if ia == 0 {
				cmp = -ib
			} else if ib == 0 {
				cmp = ia
			}
		default:
			cmp = va.Cmp(vb)
		}
		if cmp > 0 {
			ra, rb = rb, ra
		}
		a, b := s.conv(ra, ti), s.conv(rb, ti)
		key := fmt.Sprintf("m|%s|%d|%x|%x", s.name, ti, ra, rb)
		ev.Case(key, near(s, ra, &targets[ti]) || near(s, rb, &targets[ti]), "mono-"+s.name, nil)
		if less(b, a, &targets[ti]) {
			failMono(rt, s, ra, rb, ti, a, b)
		}
	})
}

// drawRaw draws a raw value of the source kind, biased towards the boundaries.
func drawRaw(rt *rapid.T, s *source, label string) uint64 {
	mode := rapid.IntRange(0, 3).Draw(rt, label+"-mode")
	if s.class == kFloat {
		var f float64
		switch mode {
		case 0:
			f = rapid.Float64().Draw(rt, label)
		case 1:
			tg := targets[rapid.IntRange(0, 9).Draw(rt, label+"-t")]
			base := float64(tg.hi)
			if rapid.Bool().Draw(rt, label+"-lo") {
				base = float64(tg.lo)
			}
			f = base + rapid.Float64Range(-5000, 5000).Draw(rt, label+"-d")
		case 2:
			f = math.Ldexp(rapid.Float64Range(0.5, 2).Draw(rt, label+"-m"), rapid.IntRange(-10, 130).Draw(rt, label+"-e"))
			if rapid.Bool().Draw(rt, label+"-neg") {
				f = -f
			}
		default:
			if s.bits == 32 {
				return uint64(rapid.Uint32().Draw(rt, label+"-bits"))
			}
			return rapid.Uint64().Draw(rt, label+"-bits")
		}
		if s.bits == 32 {
			return uint64(math.Float32bits(float32(f)))
		}
		return math.Float64bits(f)
	}
	var raw uint64
	switch mode {
	case 0, 3:
		raw = rapid.Uint64().Draw(rt, label)
	case 1:
		tg := targets[rapid.IntRange(0, 9).Draw(rt, label+"-t")]
		d := uint64(rapid.Int64Range(-5000, 5000).Draw(rt, label+"-d"))
		if rapid.Bool().Draw(rt, label+"-lo") {
			raw = uint64(tg.lo) + d
		} else {
			raw = tg.hi + d
		}
	default:
		raw = uint64(1)<<uint(rapid.IntRange(0, 63).Draw(rt, label+"-p")) + uint64(rapid.Int64Range(-3, 3).Draw(rt, label+"-d"))
		if rapid.Bool().Draw(rt, label+"-neg") {
			raw = -raw
		}
	}
	if s.bits < 64 {
		raw &= (1 << uint(s.bits)) - 1
	}
	return raw
}

// TestRandom: rapid draws over all 24 source kinds x 10 targets, big reference.
func TestRandom(t *testing.T) {
	rapid.Check(t, func(rt *rapid.T) {
		si := rapid.IntRange(0, len(sources)-1).Draw(rt, "source")
		s := &sources[si]
		ti := rapid.IntRange(0, 9).Draw(rt, "target")
		raw := drawRaw(rt, s, "v")
		nt := near(s, raw, &targets[ti])
		ev.Case(fmt.Sprintf("r|%s|%d|%x", s.name, ti, raw), nt, "random-"+s.name, mkCase(s, raw, ti))
		checkOne(rt, "TestRandom", s, raw, ti)
	})
}

// TestSweep32: all values of the 32-bit source kinds (int32, uint32, float32 by bit
// pattern, and their named versions) in increasing numeric order. Quick: a strided
// sample (stride drawn from the seed) ; thorough: every value (exhaustive).
func TestSweep32(t *testing.T) {
	shard, shards := ev.Shard()
	for si := range sources {
		s := &sources[si]
		if s.bits != 32 {
			continue
		}
		cnt := s.orderedCount()
		per := (cnt + uint64(shards) - 1) / uint64(shards)
		from := per * uint64(shard)
		to := from + per + 1 // overlap by one so that monotonicity is checked across shards
		if to > cnt {
			to = cnt
		}
		stride := uint64(1)
		if !ev.Thorough() {
			stride = 4093 + 2*(ev.Seed()%1000) // odd stride, seed dependent
			from += ev.Seed() % stride
		}
		if from >= to {
			continue
		}
		n, _ := sweepRange(t, "TestSweep32", s, from, to, stride)
		// non-trivial among them: counted exactly by arithmetic would duplicate the oracle;
		// count conservatively the values visited that are out of range of int8 (all but 256).
		ev.Bulk(n, 0, "sweep32-"+s.name)
		if ev.Thorough() && !s.named {
			ev.Exhaustive("all values of " + s.name + " x 10 targets (fast reference cross-checked on boundary windows)")
		}
	}
}

// FuzzConv: coverage-guided search over (source kind, target, raw bits); thorough only.
func FuzzConv(f *testing.F) {
	f.Add(uint8(11), uint8(9), math.Float64bits(2e19))
	f.Add(uint8(23), uint8(9), math.Float64bits(2e19))
	f.Add(uint8(4), uint8(1), uint64(1<<63))
	f.Add(uint8(10), uint8(4), uint64(math.Float32bits(9.3e18)))
	f.Fuzz(func(t *testing.T, si, ti uint8, raw uint64) {
		s := &sources[int(si)%len(sources)]
		if s.bits < 64 {
			raw &= (1 << uint(s.bits)) - 1
		}
		checkOne(t, "FuzzConv", s, raw, int(ti)%10)
	})
}
