// Package c20 decides C20: a digest depends only on the algorithm and the bytes —
// differential against the standard implementations, over contents, reader chunkings
// and histories of earlier (successful, failed, cancelled) calculations on one hasher.
package c20

import (
	"bytes"
	"context"
	"crypto/md5"
	"crypto/sha1"
	"crypto/sha256"
	"encoding/hex"
	"encoding/json"
	"errors"
	"fmt"
	"io"
	nethttp "net/http"
	"os"
	"path/filepath"
	"strings"
	"testing"

	"github.com/OneOfOne/xxhash"
	"github.com/spaolacci/murmur3"
	"golang.org/x/crypto/blake2b"
	"pgregory.net/rapid"

	"github.com/ARM-software/golang-utils/utils/commonerrors"
	"github.com/ARM-software/golang-utils/utils/filesystem"
	"github.com/ARM-software/golang-utils/utils/hashing"

	"verif/internal/ev"
)

const prop = "C20"

func TestMain(m *testing.M) { ev.Main(m) }

var algos = []string{hashing.HashMd5, hashing.HashSha1, hashing.HashSha256, hashing.HashBlake2256, hashing.HashXXHash, hashing.HashMurmur}

// reference digests, computed with the standard implementations directly.
func refDigest(algo string, b []byte) string {
	switch algo {
	case hashing.HashMd5:
		s := md5.Sum(b)
		return hex.EncodeToString(s[:])
	case hashing.HashSha1:
		s := sha1.Sum(b)
		return hex.EncodeToString(s[:])
	case hashing.HashSha256:
		s := sha256.Sum256(b)
		return hex.EncodeToString(s[:])
	case hashing.HashBlake2256:
		s := blake2b.Sum256(b)
		return hex.EncodeToString(s[:])
	case hashing.HashXXHash:
		var o [8]byte
		v := xxhash.Checksum64(b)
		for i := 0; i < 8; i++ {
			o[i] = byte(v >> (56 - 8*i))
		}
		return hex.EncodeToString(o[:])
	default:
		var o [8]byte
		v := murmur3.Sum64(b)
		for i := 0; i < 8; i++ {
			o[i] = byte(v >> (56 - 8*i))
		}
		return hex.EncodeToString(o[:])
	}
}

// Content is described, not stored: bytes are a pure function of (Len, Seed, Kind).
type Content struct {
	Len  int    `json:"len"`
	Seed uint64 `json:"seed"`
	Kind int    `json:"kind"` // 0 zeros, 1 counter pattern, 2 pseudo-random
}

func (c Content) Bytes() []byte {
	b := make([]byte, c.Len)
	switch c.Kind {
	case 1:
		for i := range b {
			b[i] = byte(i*7 + int(c.Seed))
		}
	case 2:
		x := c.Seed | 1
		for i := range b {
			x ^= x << 13
			x ^= x >> 7
			x ^= x << 17
			b[i] = byte(x >> 24)
		}
	}
	return b
}

// Calc is one calculation on the hasher.
type Calc struct {
	Content Content `json:"content"`
	Chunks  []int   `json:"chunks"`               // sizes returned by successive Reads (cycled); 0 = zero-length read
	Outcome int     `json:"outcome"`              // 0 complete, 1 reader fails at byte At, 2 context cancelled at byte At
	At      int     `json:"at"`                   // byte offset of the fault
	ErrKind int     `json:"error_kind,omitempty"` // outcome 1: 0 bespoke error, 1 io.ErrUnexpectedEOF, 2 an error wrapping io.EOF, 3 commonerrors.ErrEOF, 4 os.ErrClosed
	Eager   bool    `json:"eager_eof"`            // reader returns io.EOF together with the last bytes
	WT      bool    `json:"with_writer_to"`       // reader also implements io.WriterTo
	// Std: (complete calculations only) the content comes from a standard library reader instead of the scripted one:
	// 1 bytes.Buffer (the zero value new(bytes.Buffer) when the content is empty), 2 strings.Reader (&strings.Reader{} when
	// empty), 3 bytes.Reader (&bytes.Reader{} when empty), 4 http.NoBody (empty content only)
	Std int `json:"std_reader,omitempty"`
}

type Case struct {
	Algo    string `json:"algo"`
	History []Calc `json:"history"` // earlier calculations on the same hasher object
	Final   Calc   `json:"final"`   // outcome 0: its digest is compared with the reference
	Via     int    `json:"via"`     // 0 IHash.Calculate 1 CalculateWithContext 2 CalculateStringHash-equivalent 3 file hash (both backends)
}

var errInjected = errors.New("injected read failure")

type scriptReader struct {
	data   []byte
	pos    int
	chunks []int
	ci     int
	calc   *Calc
	cancel context.CancelFunc
	reads  int
}

func (r *scriptReader) Read(p []byte) (int, error) {
	r.reads++
	if r.calc.Outcome != 0 && r.pos >= r.calc.At {
		if r.calc.Outcome == 1 {
			switch r.calc.ErrKind {
			case 1:
				return 0, io.ErrUnexpectedEOF
			case 2:
				return 0, fmt.Errorf("stream broke: %w", io.EOF)
			case 3:
				return 0, commonerrors.ErrEOF
			case 4:
				return 0, os.ErrClosed
			}
			return 0, errInjected
		}
		r.cancel()
		// keep serving: a cancelled context must stop the copy by itself
	}
	if r.pos >= len(r.data) {
		return 0, io.EOF
	}
	n := len(p)
	if len(r.chunks) > 0 {
		c := r.chunks[r.ci%len(r.chunks)]
		r.ci++
		if c < n {
			n = c
		}
	}
	if rem := len(r.data) - r.pos; n > rem {
		n = rem
	}
	if r.calc.Outcome != 0 && r.pos < r.calc.At && r.pos+n > r.calc.At {
		n = r.calc.At - r.pos
	}
	copy(p, r.data[r.pos:r.pos+n])
	r.pos += n
	if r.calc.Eager && r.pos == len(r.data) && n > 0 {
		return n, io.EOF
	}
	return n, nil
}

type scriptReaderWT struct{ *scriptReader }

func (r scriptReaderWT) WriteTo(w io.Writer) (int64, error) {
	var total int64
	buf := make([]byte, 4096)
	for {
		n, err := r.Read(buf)
		if n > 0 {
			m, werr := w.Write(buf[:n])
			total += int64(m)
			if werr != nil {
				return total, werr
			}
		}
		if err == io.EOF {
			return total, nil
		}
		if err != nil {
			return total, err
		}
	}
}

func runCalc(h hashing.IHash, c *Calc, via int) (string, error) {
	ctx, cancel := context.WithCancel(context.Background())
	defer cancel()
	sr := &scriptReader{data: c.Content.Bytes(), chunks: c.Chunks, calc: c, cancel: cancel}
	var r io.Reader = sr
	if c.WT {
		r = scriptReaderWT{sr}
	}
	if c.Outcome == 0 {
		data := c.Content.Bytes()
		switch c.Std {
		case 1:
			if len(data) == 0 {
				r = new(bytes.Buffer)
			} else {
				r = bytes.NewBuffer(data)
			}
		case 2:
			if len(data) == 0 {
				r = &strings.Reader{}
			} else {
				r = strings.NewReader(string(data))
			}
		case 3:
			if len(data) == 0 {
				r = &bytes.Reader{}
			} else {
				r = bytes.NewReader(data)
			}
		case 4:
			if len(data) == 0 {
				r = nethttp.NoBody
			}
		}
	}
	if via == 0 && c.Outcome != 2 {
		return h.Calculate(r)
	}
	return h.CalculateWithContext(ctx, r)
}

func genContent(t *rapid.T, label string) Content {
	var n int
	switch rapid.IntRange(0, 5).Draw(t, label+"-lenclass") {
	case 0:
		n = rapid.IntRange(0, 3).Draw(t, label+"-len")
	case 1:
		n = rapid.SampledFrom([]int{55, 56, 63, 64, 65, 111, 112, 119, 127, 128, 129, 255, 256, 257, 511, 512, 513}).Draw(t, label+"-len")
	case 2:
		n = rapid.IntRange(0, 600).Draw(t, label+"-len")
	case 3:
		n = rapid.SampledFrom([]int{4095, 4096, 4097, 32767, 32768, 32769, 65535, 65536, 65537}).Draw(t, label+"-len")
	case 4:
		n = rapid.IntRange(0, 70000).Draw(t, label+"-len")
	default:
		max := 200000
		if ev.Thorough() {
			max = 1 << 20
		}
		n = rapid.IntRange(0, max).Draw(t, label+"-len")
	}
	return Content{Len: n, Seed: rapid.Uint64Range(0, 1<<20).Draw(t, label+"-seed"), Kind: rapid.IntRange(0, 2).Draw(t, label+"-kind")}
}

func genCalc(t *rapid.T, label string, allowFault bool) Calc {
	c := Calc{Content: genContent(t, label)}
	switch rapid.IntRange(0, 3).Draw(t, label+"-chunking") {
	case 0: // whole buffer
	case 1:
		c.Chunks = []int{rapid.SampledFrom([]int{1, 2, 3, 7, 63, 64, 65, 127, 128, 129, 1000, 4096}).Draw(t, label+"-chunk")}
	default:
		c.Chunks = rapid.SliceOfN(rapid.IntRange(0, 300), 1, 8).Draw(t, label+"-chunks")
		allZero := true
		for _, x := range c.Chunks {
			if x != 0 {
				allZero = false
			}
		}
		if allZero {
			c.Chunks = append(c.Chunks, 1)
		}
	}
	// tiny chunks over big contents only cost time
	if c.Content.Len > 20000 && len(c.Chunks) > 0 {
		for i := range c.Chunks {
			if c.Chunks[i] > 0 && c.Chunks[i] < 64 {
				c.Chunks[i] += 61
			}
		}
	}
	c.Eager = rapid.Bool().Draw(t, label+"-eager")
	c.WT = rapid.Bool().Draw(t, label+"-wt")
	if rapid.IntRange(0, 5).Draw(t, label+"-std") == 0 {
		c.Std = rapid.IntRange(1, 4).Draw(t, label+"-std-kind")
	}
	if allowFault {
		c.Outcome = rapid.IntRange(0, 2).Draw(t, label+"-outcome")
		if c.Outcome != 0 {
			c.At = rapid.IntRange(0, c.Content.Len).Draw(t, label+"-at")
		}
		if c.Outcome == 1 {
			c.ErrKind = rapid.IntRange(0, 4).Draw(t, label+"-errkind")
		}
	}
	return c
}

func genCase(t *rapid.T) Case {
	c := Case{Algo: rapid.SampledFrom(algos).Draw(t, "algo")}
	n := rapid.IntRange(0, 4).Draw(t, "history-len")
	for i := 0; i < n; i++ {
		c.History = append(c.History, genCalc(t, fmt.Sprintf("h%d", i), true))
	}
	c.Final = genCalc(t, "final", false)
	c.Via = rapid.IntRange(0, 1).Draw(t, "via")
	return c
}

func (c *Case) nontrivial() bool {
	for _, h := range c.History {
		if h.Outcome != 0 {
			return true
		}
	}
	for _, x := range c.Final.Chunks {
		if x%64 != 0 {
			return c.Final.Content.Len > 64
		}
	}
	return false
}

func (c *Case) class() string {
	cl := c.Algo
	f, k := false, false
	for _, h := range c.History {
		if h.Outcome == 1 {
			f = true
		}
		if h.Outcome == 2 {
			k = true
		}
	}
	switch {
	case f && k:
		cl += "/failed+cancelled-before"
	case f:
		cl += "/failed-before"
	case k:
		cl += "/cancelled-before"
	case len(c.History) > 0:
		cl += "/reused"
	default:
		cl += "/fresh"
	}
	return cl
}

func checkCase(t ev.T, test string, c Case) {
	h, err := hashing.NewHashingAlgorithm(c.Algo)
	if err != nil {
		ev.Fail(t, prop, test, c, "NewHashingAlgorithm(%s): %v", c.Algo, err)
	}
	ev.Guard(t, prop, test, c, func() {
		for i := range c.History {
			hc := &c.History[i]
			got, err := runCalc(h, hc, c.Via)
			data := hc.Content.Bytes()
			switch {
			case hc.Outcome == 0:
				if err != nil {
					ev.Fail(t, prop, test, c, "history[%d]: complete calculation failed: %v", i, err)
				}
				if want := refDigest(c.Algo, data); got != want {
					ev.Fail(t, prop, test, c, "history[%d]: digest %s, reference %s", i, got, want)
				}
			case hc.Outcome == 1:
				// the fault may never be reached (reader announced EOF with its last bytes): then the digest must be the right one
				if err == nil {
					if want := refDigest(c.Algo, data); got != want {
						ev.Fail(t, prop, test, c, "history[%d]: reader failed at byte %d but Calculate returned nil with digest %s (reference of the whole content %s)", i, hc.At, got, want)
					}
				}
			case hc.Outcome == 2:
				// cancellation may land after the last byte was consumed: a correct digest is fine then
				if err == nil {
					if want := refDigest(c.Algo, data); got != want {
						ev.Fail(t, prop, test, c, "history[%d]: cancelled calculation returned nil error and digest %s, reference %s", i, got, want)
					}
				} else if !commonerrors.Any(err, commonerrors.ErrCancelled, commonerrors.ErrTimeout) {
					ev.Fail(t, prop, test, c, "history[%d]: cancelled calculation returned %v (not a cancelled/timeout kind)", i, err)
				}
			}
		}
		got, err := runCalc(h, &c.Final, c.Via)
		if err != nil {
			ev.Fail(t, prop, test, c, "final calculation failed: %v", err)
		}
		if want := refDigest(c.Algo, c.Final.Content.Bytes()); got != want {
			ev.Fail(t, prop, test, c, "final digest %s differs from the reference %s of the standard implementation (history of %d earlier calculations)", got, want, len(c.History))
		}
	})
}

func replayCase(t ev.T, raw json.RawMessage) {
	var c Case
	if err := json.Unmarshal(raw, &c); err != nil {
		t.Fatalf("HARNESS: %v", err)
	}
	checkCase(t, "TestReplay", c)
}

func init() {
	ev.RegisterReplay("TestHasherHistories", replayCase)
	ev.RegisterReplay("TestReplay", replayCase)
	ev.RegisterReplay("FuzzHasher", replayCase)
	ev.RegisterReplay("TestFileHash", replayFile)
}

func TestReplay(t *testing.T)      { ev.RunReplay(t) }
func TestRegressions(t *testing.T) { ev.Regressions(t, prop) }

func TestHasherHistories(t *testing.T) {
	rapid.Check(t, func(rt *rapid.T) {
		c := genCase(rt)
		key, _ := json.Marshal(c)
		ev.Case(string(key), c.nontrivial(), c.class(), c)
		checkCase(rt, "TestHasherHistories", c)
	})
}

// ---- file hashing on both backends -------------------------------------------------------

type FileCase struct {
	Algo     string    `json:"algo"`
	Contents []Content `json:"contents"` // files hashed one after the other with one IFileHash and through FS.FileHash
	Backend  string    `json:"backend"`  // "os" | "mem"
	// Spelling: how the path of the file is spelled when it is hashed: "" clean, dot = dir/./f, double = dir//f,
	// updown = dir/x/../f (x exists), link = dir/lnk/../f where lnk is a symbolic link to a directory elsewhere (OS backend):
	// the operating system resolves that to the parent of the link's target, where the file is; a decoy stands at dir/f
	Spelling string `json:"path_spelling,omitempty"`
}

func backend(name string) (filesystem.FS, string, func()) {
	if name == "mem" {
		return filesystem.NewFs(filesystem.InMemoryFS), "/c20", func() {}
	}
	dir, err := os.MkdirTemp("", "c20-")
	if err != nil {
		panic(err)
	}
	return filesystem.NewFs(filesystem.StandardFS), dir, func() { _ = os.RemoveAll(dir) }
}

func checkFileCase(t ev.T, test string, c FileCase) {
	fs, dir, done := backend(c.Backend)
	defer done()
	ev.Guard(t, prop, test, c, func() {
		if err := fs.MkDir(dir); err != nil {
			t.Fatalf("HARNESS: %v", err)
		}
		fh, err := filesystem.NewFileHash(c.Algo)
		if err != nil {
			ev.Fail(t, prop, test, c, "NewFileHash: %v", err)
		}
		for i, ct := range c.Contents {
			name := fmt.Sprintf("f%d.bin", i)
			p := filepath.Join(dir, name)
			data := ct.Bytes()
			hp := p // the spelling given to the hashing functions
			sep := string(filepath.Separator)
			switch c.Spelling {
			case "dot":
				hp = dir + sep + "." + sep + name
			case "double":
				hp = dir + sep + sep + name
			case "updown":
				_ = fs.MkDir(filepath.Join(dir, "x"))
				hp = dir + sep + "x" + sep + ".." + sep + name
			case "symlink":
				// the path is a symbolic link to the file (OS backend): what is hashed is the file's content, all of it
				target := filepath.Join(dir, "target-"+name)
				if err := os.WriteFile(target, nil, 0o644); err != nil {
					t.Fatalf("HARNESS: %v", err)
				}
				_ = os.Remove(p)
				if err := os.Symlink(target, p); err != nil {
					t.Fatalf("HARNESS: %v", err)
				}
			case "link":
				real := filepath.Join(dir, "real")
				if err := fs.MkDir(filepath.Join(real, "sub")); err != nil {
					t.Fatalf("HARNESS: %v", err)
				}
				if i == 0 {
					if err := os.Symlink(filepath.Join(real, "sub"), filepath.Join(dir, "lnk")); err != nil {
						t.Fatalf("HARNESS: %v", err)
					}
				}
				// the decoy: what a purely lexical reading of the path would designate
				if err := fs.WriteFile(p, append([]byte("decoy"), data...), 0o644); err != nil {
					t.Fatalf("HARNESS: %v", err)
				}
				p = filepath.Join(real, name)
				hp = dir + sep + "lnk" + sep + ".." + sep + name
			}
			// written through the library's own afero-compatible API; empty contents need Touch
			if len(data) == 0 {
				if err := fs.Touch(p); err != nil {
					t.Fatalf("HARNESS: touch: %v", err)
				}
			} else if err := fs.WriteFile(p, data, 0o644); err != nil {
				t.Fatalf("HARNESS: write: %v", err)
			}
			want := refDigest(c.Algo, data)
			got, err := fh.CalculateFile(fs, hp)
			if err != nil || got != want {
				ev.Fail(t, prop, test, c, "IFileHash.CalculateFile(file %d, %d bytes) = %q, %v; reference digest of the bytes %s", i, len(data), got, err, want)
			}
			got, err = fs.FileHash(c.Algo, hp)
			if err != nil || got != want {
				ev.Fail(t, prop, test, c, "FS.FileHash(file %d, %d bytes) = %q, %v; reference digest of the bytes %s", i, len(data), got, err, want)
			}
			got, err = fh.CalculateFileWithContext(context.Background(), fs, hp)
			if err != nil || got != want {
				ev.Fail(t, prop, test, c, "CalculateFileWithContext(file %d) = %q, %v; reference %s", i, got, err, want)
			}
			f, err := fs.GenericOpen(p)
			if err != nil {
				t.Fatalf("HARNESS: open: %v", err)
			}
			got, err = fh.Calculate(f)
			_ = f.Close()
			if err != nil || got != want {
				ev.Fail(t, prop, test, c, "IFileHash.Calculate(open file %d) = %q, %v; reference %s", i, got, err, want)
			}
			// a cancelled calculation in between must not influence the next file
			cctx, cancel := context.WithCancel(context.Background())
			cancel()
			if _, err = fh.CalculateFileWithContext(cctx, fs, hp); err == nil {
				ev.Fail(t, prop, test, c, "CalculateFileWithContext with a cancelled context returned nil")
			}
			rb, err := fs.ReadFile(p)
			if len(data) > 0 && (err != nil || !bytes.Equal(rb, data)) {
				t.Fatalf("HARNESS: file content differs from what was written: %v", err)
			}
		}
	})
}

func replayFile(t ev.T, raw json.RawMessage) {
	var c FileCase
	if err := json.Unmarshal(raw, &c); err != nil {
		t.Fatalf("HARNESS: %v", err)
	}
	checkFileCase(t, "TestFileHash", c)
}

func TestFileHash(t *testing.T) {
	rapid.Check(t, func(rt *rapid.T) {
		c := FileCase{Algo: rapid.SampledFrom(algos).Draw(rt, "algo"), Backend: rapid.SampledFrom([]string{"mem", "os"}).Draw(rt, "backend")}
		n := rapid.IntRange(1, 4).Draw(rt, "files")
		for i := 0; i < n; i++ {
			c.Contents = append(c.Contents, genContent(rt, fmt.Sprintf("c%d", i)))
		}
		c.Spelling = rapid.SampledFrom([]string{"", "", "dot", "double", "updown", "link", "symlink"}).Draw(rt, "spelling")
		if (c.Spelling == "link" || c.Spelling == "symlink") && c.Backend != "os" {
			c.Spelling = "updown"
		}
		key, _ := json.Marshal(c)
		ev.Case(string(key), len(c.Contents) > 1, "file/"+c.Backend+"/"+c.Algo, c)
		checkFileCase(rt, "TestFileHash", c)
	})
}

// FuzzHasher: byte-level, coverage guided; the bytes are decoded into a two-step
// history (a possibly failing calculation, then a complete one).
func FuzzHasher(f *testing.F) {
	f.Add(uint8(2), []byte("some earlier content that fails in the middle"), uint16(20), uint8(1), []byte("hello"), uint8(3))
	f.Add(uint8(0), []byte{}, uint16(0), uint8(2), []byte{0}, uint8(0))
	f.Fuzz(func(t *testing.T, algo uint8, first []byte, at uint16, outcome uint8, second []byte, chunk uint8) {
		a := algos[int(algo)%len(algos)]
		h, err := hashing.NewHashingAlgorithm(a)
		if err != nil {
			t.Fatal(err)
		}
		c1 := Calc{Outcome: int(outcome) % 3, At: int(at) % (len(first) + 1)}
		ctx, cancel := context.WithCancel(context.Background())
		defer cancel()
		var chunks []int
		if chunk > 0 {
			chunks = []int{int(chunk)}
		}
		_, _ = h.CalculateWithContext(ctx, &scriptReader{data: first, chunks: chunks, calc: &c1, cancel: cancel})
		c2 := Calc{}
		got, err := h.Calculate(&scriptReader{data: second, chunks: chunks, calc: &c2, cancel: func() {}})
		if want := refDigest(a, second); err != nil || got != want {
			c := map[string]any{"algo": a, "first": first, "at": c1.At, "outcome": c1.Outcome, "second": second, "chunk": chunk}
			ev.Fail(t, prop, "FuzzHasherRaw", c, "digest %q (%v) after an earlier calculation with outcome %d; reference %s", got, err, c1.Outcome, want)
		}
	})
}
