package c20

import (
	"archive/tar"
	"archive/zip"
	"bytes"
	"encoding/json"
	"fmt"
	"os"
	"path/filepath"
	"testing"

	"pgregory.net/rapid"

	"github.com/ARM-software/golang-utils/utils/filesystem"

	"verif/internal/ev"
)

// ViewCase: "on every filesystem backend" - the read-only filesystems opened over an archive are backends too. Each file is
// hashed Times times in a row through FS.FileHash and through one IFileHash.
type ViewCase struct {
	Algo     string    `json:"algo"`
	View     string    `json:"view"` // zip | tar
	Contents []Content `json:"contents"`
	Times    int       `json:"times"`
	// AssertKnown disables the exclusion of the listed finding C20-R69 (set by its replay only)
	AssertKnown bool `json:"assert_known,omitempty"`
}

func checkViewCase(t ev.T, test string, c ViewCase) {
	dir, err := os.MkdirTemp("", "c20v-")
	if err != nil {
		t.Fatalf("HARNESS: %v", err)
	}
	defer os.RemoveAll(dir)
	var buf bytes.Buffer
	datas := make([][]byte, len(c.Contents))
	for i := range c.Contents {
		datas[i] = c.Contents[i].Bytes()
	}
	arch := filepath.Join(dir, "a."+c.View)
	if c.View == "zip" {
		zw := zip.NewWriter(&buf)
		for i, d := range datas {
			w, _ := zw.Create(fmt.Sprintf("dir/f%d.bin", i))
			_, _ = w.Write(d)
		}
		_ = zw.Close()
	} else {
		tw := tar.NewWriter(&buf)
		_ = tw.WriteHeader(&tar.Header{Typeflag: tar.TypeDir, Name: "dir/", Mode: 0o755})
		for i, d := range datas {
			_ = tw.WriteHeader(&tar.Header{Typeflag: tar.TypeReg, Name: fmt.Sprintf("dir/f%d.bin", i), Mode: 0o644, Size: int64(len(d))})
			_, _ = tw.Write(d)
		}
		_ = tw.Close()
	}
	if err := os.WriteFile(arch, buf.Bytes(), 0o644); err != nil {
		t.Fatalf("HARNESS: %v", err)
	}
	std := filesystem.NewFs(filesystem.StandardFS)
	var view filesystem.ICloseableFS
	var file filesystem.File
	if c.View == "zip" {
		view, file, err = filesystem.NewZipFileSystem(std, arch, filesystem.NoLimits())
	} else {
		view, file, err = filesystem.NewTarFileSystem(std, arch, filesystem.NoLimits())
	}
	if err != nil || view == nil {
		ev.Fail(t, prop, test, c, "opening the %s view failed: %v", c.View, err)
	}
	defer func() {
		_ = view.Close()
		if file != nil {
			_ = file.Close()
		}
	}()
	ev.Guard(t, prop, test, c, func() {
		fh, herr := filesystem.NewFileHash(c.Algo)
		if herr != nil {
			ev.Fail(t, prop, test, c, "NewFileHash: %v", herr)
		}
		for i, d := range datas {
			if len(d) == 0 {
				continue // (an empty file is refused as "empty" by the reading helpers: covered on the plain backends)
			}
			p := fmt.Sprintf("dir/f%d.bin", i)
			want := refDigest(c.Algo, d)
			for k := 0; k < c.Times; k++ {
				if c.View == "tar" && k > 0 && !c.AssertKnown {
					ev.Exclude("C20-R69 tar view: a file hashed a second time")
					break
				}
				got, gerr := view.FileHash(c.Algo, p)
				if gerr != nil || got != want {
					ev.Fail(t, prop, test, c, "%s view, FS.FileHash(%s) #%d = %q, %v; reference digest of the %d bytes %s", c.View, p, k+1, got, gerr, len(d), want)
				}
				if c.View == "tar" && !c.AssertKnown {
					break // (hashing it through the IFileHash as well would be the second time)
				}
				got, gerr = fh.CalculateFile(view, p)
				if gerr != nil || got != want {
					ev.Fail(t, prop, test, c, "%s view, IFileHash.CalculateFile(%s) #%d = %q, %v; reference %s", c.View, p, k+1, got, gerr, want)
				}
			}
		}
	})
}

func TestViewHash(t *testing.T) {
	rapid.Check(t, func(rt *rapid.T) {
		c := ViewCase{Algo: rapid.SampledFrom(algos).Draw(rt, "algo"), View: rapid.SampledFrom([]string{"zip", "tar"}).Draw(rt, "view"), Times: rapid.IntRange(1, 3).Draw(rt, "times")}
		n := rapid.IntRange(1, 3).Draw(rt, "files")
		for i := 0; i < n; i++ {
			c.Contents = append(c.Contents, genContent(rt, fmt.Sprintf("c%d", i)))
		}
		key, _ := json.Marshal(c)
		ev.Case(string(key), c.Times > 1, "view/"+c.View+"/"+c.Algo, c)
		checkViewCase(rt, "TestViewHash", c)
	})
}

func init() {
	ev.RegisterReplay("TestViewHash", func(t ev.T, raw json.RawMessage) {
		var c ViewCase
		if err := json.Unmarshal(raw, &c); err != nil {
			t.Fatalf("HARNESS: %v", err)
		}
		checkViewCase(t, "TestViewHash", c)
	})
}
