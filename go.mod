module verif

go 1.23.0

toolchain go1.24.1

require (
	github.com/ARM-software/golang-utils/utils v0.0.0
	github.com/OneOfOne/xxhash v1.2.8
	github.com/go-logr/logr v1.4.2
	github.com/go-logr/stdr v1.2.2
	github.com/go-ozzo/ozzo-validation/v4 v4.3.0
	github.com/hashicorp/go-hclog v1.6.3
	github.com/shirou/gopsutil/v4 v4.25.3
	github.com/sirupsen/logrus v1.9.3
	github.com/spaolacci/murmur3 v1.1.0
	github.com/spf13/afero v1.14.0
	github.com/spf13/pflag v1.0.6
	github.com/spf13/viper v1.20.1
	go.uber.org/zap v1.27.0
	golang.org/x/crypto v0.37.0
	golang.org/x/exp v0.0.0-20240719175910-8a7402abbf56
	pgregory.net/rapid v1.3.0
)

require (
	github.com/asaskevich/govalidator v0.0.0-20200108200545-475eaeb16496 // indirect
	github.com/avast/retry-go/v4 v4.6.1 // indirect
	github.com/bmatcuk/doublestar/v3 v3.0.0 // indirect
	github.com/bombsimon/logrusr/v4 v4.1.0 // indirect
	github.com/davecgh/go-spew v1.1.2-0.20180830191138-d8f796af33cc // indirect
	github.com/deckarep/golang-set/v2 v2.8.0 // indirect
	github.com/djherbis/times v1.6.0 // indirect
	github.com/dolmen-go/contextio v1.0.0 // indirect
	github.com/evanphx/hclogr v0.2.0 // indirect
	github.com/fatih/color v1.16.0 // indirect
	github.com/fsnotify/fsnotify v1.8.0 // indirect
	github.com/go-faker/faker/v4 v4.6.0 // indirect
	github.com/go-http-utils/headers v0.0.0-20181008091004-fed159eddc2a // indirect
	github.com/go-logr/zapr v1.3.0 // indirect
	github.com/go-viper/mapstructure/v2 v2.2.1 // indirect
	github.com/gofrs/uuid/v5 v5.3.2 // indirect
	github.com/gogs/chardet v0.0.0-20211120154057-b7413eaefb8f // indirect
	github.com/hashicorp/go-cleanhttp v0.5.2 // indirect
	github.com/hashicorp/go-retryablehttp v0.7.7 // indirect
	github.com/joho/godotenv v1.5.1 // indirect
	github.com/mattn/go-colorable v0.1.13 // indirect
	github.com/mattn/go-isatty v0.0.20 // indirect
	github.com/mitchellh/go-homedir v1.1.0 // indirect
	github.com/mitchellh/mapstructure v1.5.0 // indirect
	github.com/pelletier/go-toml/v2 v2.2.3 // indirect
	github.com/petermattis/goid v0.0.0-20240813172612-4fcff4a6cae7 // indirect
	github.com/pmezard/go-difflib v1.0.1-0.20181226105442-5d4384ee4fb2 // indirect
	github.com/rifflock/lfshook v0.0.0-20180920164130-b9218ef580f5 // indirect
	github.com/rs/zerolog v1.34.0 // indirect
	github.com/sagikazarmark/locafero v0.7.0 // indirect
	github.com/sasha-s/go-deadlock v0.3.5 // indirect
	github.com/sourcegraph/conc v0.3.0 // indirect
	github.com/spf13/cast v1.7.1 // indirect
	github.com/stretchr/testify v1.10.0 // indirect
	github.com/subosito/gotenv v1.6.0 // indirect
	github.com/tklauser/go-sysconf v0.3.12 // indirect
	github.com/tklauser/numcpus v0.6.1 // indirect
	github.com/zailic/slogr v0.0.2-alpha // indirect
	go.uber.org/atomic v1.11.0 // indirect
	go.uber.org/multierr v1.10.0 // indirect
	golang.org/x/oauth2 v0.29.0 // indirect
	golang.org/x/sync v0.13.0 // indirect
	golang.org/x/sys v0.32.0 // indirect
	golang.org/x/text v0.24.0 // indirect
	gopkg.in/yaml.v3 v3.0.1 // indirect
)

replace github.com/ARM-software/golang-utils/utils => /repo/utils
