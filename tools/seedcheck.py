#!/usr/bin/env python3
"""Run the checks against a seeded breaking change kept in /verif/seeded/<name>/patch.diff.
usage: seedcheck.py <name> [<ID> ...]     (default ID = the property named in meta.json, or the prefix of <name>)
Applies the patch to /repo (which must be clean), runs ./check <ID> --no-evidence for each ID, reverts, records the
outcome in /verif/seeded/<name>/result.json. Never leaves /repo modified."""
import json, os, subprocess, sys, time

name = sys.argv[1]
d = os.path.join('/verif/seeded', name)
meta = {}
if os.path.exists(os.path.join(d, 'meta.json')):
    meta = json.load(open(os.path.join(d, 'meta.json')))
ids = sys.argv[2:] or [meta.get('property', name.split('-')[0])]
st = subprocess.run(['git', '-C', '/repo', 'status', '--porcelain'], stdout=subprocess.PIPE, text=True).stdout.strip()
if st:
    print('REPO NOT CLEAN:\n' + st)
    sys.exit(3)
r = subprocess.run(['git', '-C', '/repo', 'apply', '--whitespace=nowarn', os.path.join(d, 'patch.diff')], stdout=subprocess.PIPE, stderr=subprocess.STDOUT, text=True)
if r.returncode != 0:
    print('PATCH DOES NOT APPLY:\n' + r.stdout)
    sys.exit(3)
results = {}
try:
    for pid in ids:
        t = time.time()
        r = subprocess.run(['/verif/check', pid, '--no-evidence'], stdout=subprocess.PIPE, stderr=subprocess.STDOUT, text=True)
        lines = r.stdout.splitlines()
        viol = [l for l in lines if l.startswith('VIOLATION')]
        why = [l for l in lines if l.startswith('#   ')][:3]
        results[pid] = {'exit': r.returncode, 'detected': bool(r.returncode == 1 and viol), 'violations': len(viol), 'first': [w[4:300] for w in why], 'wall_s': round(time.time() - t, 1)}
        print(pid, 'DETECTED' if results[pid]['detected'] else 'MISSED(rc=%d)' % r.returncode, '%.0fs' % (time.time() - t))
        for w in why[:2]:
            print('   ', w[:260])
        if r.returncode == 2:
            for l in lines:
                if l.startswith('HARNESS'):
                    print('   ', l[:260])
        rd = os.path.join('/verif/replays', pid.lower())
        if os.path.isdir(rd):
            for f in os.listdir(rd):
                if f.startswith('found-'):
                    os.remove(os.path.join(rd, f))
finally:
    subprocess.run(['git', '-C', '/repo', 'checkout', '--', '.'])
    subprocess.run(['git', '-C', '/repo', 'clean', '-fdq', 'utils'])
json.dump(results, open(os.path.join(d, 'result.json'), 'w'), indent=1)
