#!/usr/bin/env python3
"""Run the checks against a seeded breaking change kept in /verif/seeded/<name>/<patch> (default patch.diff).
usage: seedcheck.py <name>[:<patchfile>] [<ID> ...]   (default ID = the property named in meta.json, or the prefix of <name>)
The patch is applied to a scratch worktree of /repo's HEAD under /tmp (removed afterwards) and the quick check of each
ID is run against that tree (VERIF_REPO): /repo itself is never touched, so this can run beside anything else.
The outcome is recorded in /verif/seeded/<name>/result.json (result-<patch>.json for a named patch)."""
import json, os, subprocess, sys, time, tempfile, shutil



def say(*a):
    # (the output is often piped through head: a closed pipe must not stop the clean-up)
    try:
        print(*a, flush=True)
    except BrokenPipeError:
        try:
            sys.stdout = open(os.devnull, 'w')
        except OSError:
            pass


arg = sys.argv[1]
name, _, patch = arg.partition(':')
patch = patch or 'patch.diff'
d = os.path.join('/verif/seeded', name)
meta = {}
if os.path.exists(os.path.join(d, 'meta.json')):
    meta = json.load(open(os.path.join(d, 'meta.json')))
ids = sys.argv[2:] or [meta.get('property', name.split('-')[0])]
wt = tempfile.mkdtemp(prefix='verif-seed-')
os.rmdir(wt)
r = subprocess.run(['git', '-C', '/repo', 'worktree', 'add', '--detach', wt, 'HEAD'], stdout=subprocess.PIPE, stderr=subprocess.STDOUT, text=True)
if r.returncode != 0:
    print('CANNOT CREATE WORKTREE:\n' + r.stdout)
    sys.exit(3)
results = {}
try:
    r = subprocess.run(['git', '-C', wt, 'apply', '--whitespace=nowarn', os.path.join(d, patch)], stdout=subprocess.PIPE, stderr=subprocess.STDOUT, text=True)
    if r.returncode != 0:
        print('PATCH DOES NOT APPLY:\n' + r.stdout)
        sys.exit(3)
    env = dict(os.environ, VERIF_REPO=wt)
    for pid in ids:
        t = time.time()
        r = subprocess.run(['/verif/check', pid, '--no-evidence'], stdout=subprocess.PIPE, stderr=subprocess.STDOUT, text=True, env=env)
        lines = r.stdout.splitlines()
        viol = [l for l in lines if l.startswith('VIOLATION')]
        why = [l for l in lines if l.startswith('#   ')][:3]
        results[pid] = {'exit': r.returncode, 'detected': bool(r.returncode == 1 and viol), 'violations': len(viol), 'first': [w[4:300] for w in why], 'wall_s': round(time.time() - t, 1)}
        say(name + (':' + patch if patch != 'patch.diff' else ''), pid, 'DETECTED' if results[pid]['detected'] else 'MISSED(rc=%d)' % r.returncode, '%.0fs' % (time.time() - t))
        for w in why[:2]:
            say('   ', w[:260])
        if r.returncode == 2:
            for l in lines:
                if l.startswith('HARNESS'):
                    say('   ', l[:260])
        # found-* replay files of a seeded run are not findings (the driver may write more of them than it prints)
        import glob
        for f in glob.glob(os.path.join('/verif/replays', pid.lower(), 'found-*')):
            if os.path.getmtime(f) >= t - 1:
                os.remove(f)
        for l in viol:
            f = l.split('replay=')[-1].strip()
            if os.path.basename(f).startswith('found-') and os.path.exists(f):
                os.remove(f)
finally:
    subprocess.run(['git', '-C', '/repo', 'worktree', 'remove', '--force', wt], stdout=subprocess.DEVNULL, stderr=subprocess.DEVNULL)
    shutil.rmtree(wt, ignore_errors=True)
    subprocess.run(['git', '-C', '/repo', 'worktree', 'prune'])
out = 'result.json' if patch == 'patch.diff' else 'result-' + patch.replace('.diff', '') + '.json'
json.dump(results, open(os.path.join(d, out), 'w'), indent=1)
