#!/bin/sh
# usage: thorough_all.sh <ID>...   runs the thorough tier of each property in turn and prints one summary block per property
cd "$(dirname "$0")/.."
for id in "$@"; do
  start=$(date +%s)
  ./check "$id" --tier thorough > "/tmp/thorough-$id.log" 2>&1
  rc=$?
  end=$(date +%s)
  echo "=== $id rc=$rc wall=$((end-start))s"
  grep -E "^VIOLATION|^KNOWN-FINDING|^HARNESS|^# $id|^#   |^# note" "/tmp/thorough-$id.log" | cut -c1-400 | head -20
done
