#!/usr/bin/env python3
"""Regenerates MANIFEST.json from checks.json (single source of truth for the registered checks)."""
import json, os, subprocess
R = os.path.dirname(os.path.dirname(os.path.abspath(__file__)))
cfg = json.load(open(os.path.join(R, 'checks.json')))
props = [json.loads(l) for l in open(os.path.join(R, 'properties.jsonl'))]
na_reasons = json.load(open(os.path.join(R, 'not_applicable.json'))) if os.path.exists(os.path.join(R, 'not_applicable.json')) else {}
fix_commits = []
hooks = []
try:
    out = subprocess.run(['git', '-C', '/repo', 'log', '--format=%H %s', 'a6bcfc85^..HEAD'], stdout=subprocess.PIPE, text=True).stdout
    for l in out.splitlines():
        h, s = l.split(' ', 1)
        if s.startswith('verif-hook:'):
            hooks.append(h)
except Exception:
    pass
m = {
 "version": 1,
 "setup_cmd": "./check --setup",
 "hooks": {"guard": "verif", "enable": "go test -tags verif (the driver always passes -tags verif; no file of /repo currently uses the tag: all instrumentation goes through the public filesystem.NewVirtualFileSystem(afero.Fs, ...) seam from outside the repository)",
           "baseline_off_cmd": "cd /repo/utils && GOFLAGS=-mod=mod GOPROXY=off go test -json -vet=off -count=1 -timeout 25m ./...",
           "source_commits": hooks, "add_only": True},
 "engines": [
  {"name": "driver", "path": "check", "serves_properties": sorted(cfg), "kind_free_text": "python3 driver: builds the property's Go test package against /repo's working tree (replace directive), shards rapid over processes with seeds derived from VERIF_SEED, merges statistics into evidence, maps oracle failures to VIOLATION lines with replay files"},
  {"name": "ev", "path": "internal/ev", "serves_properties": sorted(cfg), "kind_free_text": "evidence counters, replay-file writer, committed-replay regression runner, known-finding bookkeeping"},
 ],
 "checks": [], "not_applicable": [],
 "notes": "All checks are property-based tests (pgregory.net/rapid v1.3.0), enumerations by the same harness and, in the thorough tier, native Go fuzz targets. See DESIGN.md. known_findings.json lists fixed and known findings."
}
for e in cfg.get('_engines', []):
    m['engines'].append(e)
for p in props:
    pid = p['id']
    if pid in cfg and not pid.startswith('_'):
        c = cfg[pid]
        m['checks'].append({
            "property_id": pid,
            "quick_cmd": f"./check {pid} --tier quick",
            "thorough_cmd": f"./check {pid} --tier thorough",
            "evidence_file": f"/verif/evidence/{pid}.json",
            "replay_cmd_template": f"./check {pid} --replay {{path}}",
            "engine": "driver",
            "level_claimed": {"category": c['level'], "text": c.get('level_text', 'Generated-input search against an explicit oracle: the property held on every generated case; no claim of absence.'), "design_ref": f"DESIGN.md section 4, {pid}"},
            "level_note": c.get('level_note', '; '.join(c.get('assumptions', [])) or 'trusts the Go toolchain and the oracle code in props/'),
            "technique": c.get('technique', 'property-based testing (rapid) with reference oracle'),
        })
    else:
        m['not_applicable'].append({"property_id": pid, "reason": na_reasons.get(pid, "check not built yet in this session (work in progress; see DESIGN.md section 6)")})
json.dump(m, open(os.path.join(R, 'MANIFEST.json'), 'w'), indent=1)
print('checks:', [c['property_id'] for c in m['checks']], 'n/a:', [c['property_id'] for c in m['not_applicable']])
