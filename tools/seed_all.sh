#!/bin/sh
# re-runs every seeded change against the current checks (scratch worktrees; /repo untouched); prints one line per patch
cd /verif
for d in seeded/C??; do id=$(basename $d); python3 tools/seedcheck.py $id 2>&1 | grep -E "DETECTED|MISSED|PATCH" | head -1; done
for d in seeded/C??-r?; do n=$(basename $d); id=${n%%-*}; for p in patchA.diff patchB.diff; do [ -f $d/$p ] && python3 tools/seedcheck.py $n:$p $id 2>&1 | grep -E "DETECTED|MISSED|PATCH" | head -1; done; done
