#!/usr/bin/env python3
"""Sensitivity helper: apply a textual mutation to a file of /repo, run a check, revert.
usage: mutant.py <ID> <repo-relative-file> <old> <new> [extra check args]
Prints DETECTED / MISSED. Never leaves /repo modified (git checkout of the file)."""
import subprocess, sys, os
pid, rel, old, new = sys.argv[1:5]
extra = sys.argv[5:]
p = os.path.join('/repo', rel)
s = open(p).read()
if old not in s:
    print('MUTANT-ERROR: pattern not found'); sys.exit(3)
open(p, 'w').write(s.replace(old, new, 1))
try:
    r = subprocess.run(['/verif/check', pid, '--no-evidence'] + extra, stdout=subprocess.PIPE, stderr=subprocess.STDOUT, text=True)
    out = r.stdout
    viol = [l for l in out.splitlines() if l.startswith('VIOLATION')]
    print(('DETECTED' if r.returncode == 1 and viol else 'MISSED(rc=%d)' % r.returncode), pid, rel, repr(old[:50]), '->', repr(new[:50]))
    for l in out.splitlines():
        if l.startswith('VIOLATION') or l.startswith('#   ') or l.startswith('HARNESS'):
            print('   ', l[:300])
            if l.startswith('#   '): break
finally:
    subprocess.run(['git', '-C', '/repo', 'checkout', '--', rel])
    # found-* replay files of a mutant are not findings
    d = os.path.join('/verif/replays', pid.lower())
    if os.path.isdir(d):
        for f in os.listdir(d):
            if f.startswith('found-'): os.remove(os.path.join(d, f))
