#!/bin/sh
# usage: seed_intake.sh <tmp-prefix> <suffix> <ID>...   e.g. seed_intake.sh s3 r3 C01 C02
# copies /tmp/<prefix>-<ID>-demo/{patchA,patchB}.diff, DEMO.md and demonstrations into /verif/seeded/<ID>-<suffix>/
pre=$1; suf=$2; shift 2
for id in "$@"; do
  d=/verif/seeded/$id-$suf; mkdir -p $d
  for f in /tmp/$pre-$id-demo/*; do
    case "$f" in *PROPERTY.json|*TASK.md|*ALREADY_TRIED.txt|*x.diff) ;; *) cp -r "$f" $d/ ;; esac
  done
  for f in $d/*_test.go; do [ -e "$f" ] && mv "$f" "${f%.go}.go.txt"; done
  echo "{\"property\": \"$id\"}" > $d/meta.json
  echo "$id: A=$(grep '^diff --git' $d/patchA.diff 2>/dev/null | cut -d' ' -f3 | tr '\n' ' ') B=$(grep '^diff --git' $d/patchB.diff 2>/dev/null | cut -d' ' -f3 | tr '\n' ' ')"
done
