#!/usr/bin/env python3
"""For every finding recorded as fixed in known_findings.json: its replay must FAIL on the parent of the fix commit
(scratch worktree, VERIF_REPO) and PASS on the current tree. Schedule-dependent replays may need several attempts."""
import json, subprocess, sys, os, tempfile, shutil
k = json.load(open('/verif/known_findings.json'))
only = set(sys.argv[1:])
for f in k['findings']:
    if f['status'] != 'fixed' or (only and f['id'] not in only):
        continue
    pid, rep, commit = f['property'], os.path.join('/verif', f['replay']), f['commit']
    wt = tempfile.mkdtemp(prefix='verif-fixchk-'); os.rmdir(wt)
    r = subprocess.run(['git', '-C', '/repo', 'worktree', 'add', '--detach', wt, commit + '~1'], stdout=subprocess.PIPE, stderr=subprocess.STDOUT, text=True)
    if r.returncode != 0:
        print(f['id'], 'CANNOT CHECK OUT', r.stdout[:200]); continue
    try:
        before = 'passes'
        for attempt in range(4):
            r = subprocess.run(['/verif/check', pid, '--replay', rep], stdout=subprocess.PIPE, stderr=subprocess.STDOUT, text=True, env=dict(os.environ, VERIF_REPO=wt))
            if 'VIOLATION' in r.stdout:
                before = 'fails'; break
            if 'HARNESS' in r.stdout:
                before = 'harness-trouble: ' + [l for l in r.stdout.splitlines() if 'HARNESS' in l][0][:120]; break
        r = subprocess.run(['/verif/check', pid, '--replay', rep], stdout=subprocess.PIPE, stderr=subprocess.STDOUT, text=True)
        after = 'fails' if 'VIOLATION' in r.stdout else 'passes'
        print(f"{f['id']:10s} {commit} before the fix: {before:8s} now: {after}   {'OK' if before == 'fails' and after == 'passes' else '<<<<< CHECK'}", flush=True)
    finally:
        subprocess.run(['git', '-C', '/repo', 'worktree', 'remove', '--force', wt], stdout=subprocess.DEVNULL, stderr=subprocess.DEVNULL)
        shutil.rmtree(wt, ignore_errors=True)
subprocess.run(['git', '-C', '/repo', 'worktree', 'prune'])
