// Package zipgen renders *described* zip archives to bytes with archive/zip's raw
// API, so that headers can lie (declared size, CRC), names can be hostile (any bytes)
// and archives can nest. Descriptions are plain values: shrinkable and serialisable.
package zipgen

import (
	"archive/zip"
	"bytes"
	"compress/flate"
	"hash/crc32"
	"os"
	"strconv"
	"time"

	"verif/internal/treegen"
)

type Entry struct {
	Name     []byte          `json:"name"`   // raw bytes of the entry name (base64 in JSON)
	NameQ    string          `json:"name_q"` // quoted form, for readers only
	Dir      bool            `json:"dir,omitempty"`
	Store    bool            `json:"store,omitempty"` // method store instead of deflate
	Payload  treegen.Content `json:"payload,omitempty"`
	Declared string          `json:"declared,omitempty"` // "" true size | "+k" | "-k" | "0" | "huge"
	BadCRC   bool            `json:"bad_crc,omitempty"`
	Mode     uint32          `json:"mode,omitempty"` // 0 = default; may carry os.ModeSymlink
	MtimeS   int64           `json:"mtime,omitempty"`
	Nested   *Archive        `json:"nested,omitempty"`  // payload = rendering of this archive
	Garbage  bool            `json:"garbage,omitempty"` // zip-named non-zip: payload as is
	// Literal: when set, the payload is exactly this (a symbolic-link entry stores the target of the link as its content)
	Literal []byte `json:"literal,omitempty"`
}

type Archive struct {
	Entries []Entry `json:"entries"`
}

func Q(b []byte) string { return strconv.QuoteToASCII(string(b)) }

// TrueSize returns the real uncompressed payload length of the entry.
func (e *Entry) Data() []byte {
	if e.Dir || (len(e.Name) > 0 && e.Name[len(e.Name)-1] == '/') {
		return nil // archive/zip treats every name ending with a slash as a directory
	}
	if e.Nested != nil {
		b, _ := e.Nested.Render()
		return b
	}
	if e.Literal != nil {
		return e.Literal
	}
	return e.Payload.Bytes()
}

// DeclaredSize computes the uncompressed size written in the headers.
func (e *Entry) DeclaredSize(trueSize int) uint64 {
	switch {
	case e.Declared == "":
		return uint64(trueSize)
	case e.Declared == "0":
		return 0
	case e.Declared == "huge":
		return 1 << 33
	case e.Declared[0] == '+':
		k, _ := strconv.Atoi(e.Declared[1:])
		return uint64(trueSize + k)
	case e.Declared[0] == '-':
		k, _ := strconv.Atoi(e.Declared[1:])
		if k > trueSize {
			return 0
		}
		return uint64(trueSize - k)
	}
	return uint64(trueSize)
}

func (a *Archive) Render() ([]byte, error) {
	var buf bytes.Buffer
	w := zip.NewWriter(&buf)
	for i := range a.Entries {
		e := &a.Entries[i]
		fh := &zip.FileHeader{Name: string(e.Name), Method: zip.Deflate}
		if e.Store || e.Dir {
			fh.Method = zip.Store
		}
		if e.MtimeS != 0 {
			fh.Modified = time.Unix(e.MtimeS, 0).UTC()
		} else {
			fh.Modified = time.Date(2020, 1, 2, 3, 4, 6, 0, time.UTC)
		}
		mode := os.FileMode(0o644)
		if e.Dir {
			mode = os.ModeDir | 0o755
		}
		if e.Mode != 0 {
			mode = os.FileMode(e.Mode)
		}
		fh.SetMode(mode)
		data := e.Data()
		var comp []byte
		if fh.Method == zip.Deflate {
			var cb bytes.Buffer
			fw, err := flate.NewWriter(&cb, flate.BestSpeed)
			if err != nil {
				return nil, err
			}
			if _, err := fw.Write(data); err != nil {
				return nil, err
			}
			if err := fw.Close(); err != nil {
				return nil, err
			}
			comp = cb.Bytes()
		} else {
			comp = data
		}
		fh.CRC32 = crc32.ChecksumIEEE(data)
		if e.BadCRC {
			fh.CRC32 ^= 0x5a5a5a5a
		}
		fh.CompressedSize64 = uint64(len(comp))
		fh.UncompressedSize64 = e.DeclaredSize(len(data))
		rw, err := w.CreateRaw(fh)
		if err != nil {
			return nil, err
		}
		if len(data) > 0 || fh.Method == zip.Deflate && len(comp) > 0 && !(len(e.Name) > 0 && e.Name[len(e.Name)-1] == '/') {
			if _, err := rw.Write(comp); err != nil {
				return nil, err
			}
		}
	}
	if err := w.Close(); err != nil {
		return nil, err
	}
	return buf.Bytes(), nil
}
