// Package ev collects, per test process, what a check actually explored and turns
// oracle failures into replay files. The driver (/verif/check) merges the per-shard
// files into /verif/evidence/<ID>.json.
package ev

import (
	"encoding/binary"
	"encoding/json"
	"fmt"
	"hash/fnv"
	"os"
	"path/filepath"
	"runtime"
	"runtime/debug"
	"sort"
	"strconv"
	"strings"
	"sync"
	"testing"
)

// Failer is the part of testing.TB / *rapid.T that oracles need.
type Failer interface {
	Fatalf(format string, args ...any)
	Logf(format string, args ...any)
	Helper()
}

// T is the name oracles use.
type T = Failer

type fakeT struct {
	failed bool
	msg    string
}

func (f *fakeT) Fatalf(format string, args ...any) {
	f.failed = true
	f.msg = fmt.Sprintf(format, args...)
	runtime.Goexit()
}
func (f *fakeT) Logf(format string, args ...any) {}
func (f *fakeT) Helper()                         {}

// RunIsolated runs f with a throw-away T and reports whether it passed (and the
// failure message), without failing the caller and without recording failure files.
func RunIsolated(f func(t T)) (bool, string) {
	saved := os.Getenv("VERIF_FAIL_DIR")
	os.Setenv("VERIF_FAIL_DIR", "")
	defer os.Setenv("VERIF_FAIL_DIR", saved)
	ft := &fakeT{}
	done := make(chan struct{})
	go func() {
		defer close(done)
		defer func() {
			if r := recover(); r != nil {
				ft.failed = true
				ft.msg = fmt.Sprintf("panic: %v", r)
			}
		}()
		f(ft)
	}()
	<-done
	return !ft.failed, ft.msg
}

type stats struct {
	Evaluations   int64              `json:"evaluations"`
	DistinctExtra int64              `json:"distinct_extra"` // structurally distinct non-trivial cases (enumerations)
	Classes       map[string]int64   `json:"classes"`
	Excluded      map[string]int64   `json:"excluded"`
	Samples       []json.RawMessage  `json:"samples"`
	Known         map[string]string  `json:"known"` // finding id -> what was re-demonstrated
	NotReproduced map[string]string  `json:"not_reproduced"`
	Inconclusive  map[string]int64   `json:"inconclusive"`
	Notes         []string           `json:"notes"`
	Exhaustive    map[string]bool    `json:"exhaustive"`
	Metrics       map[string]float64 `json:"metrics"` // max-merged
}

var (
	mu         sync.Mutex
	st         = newStats()
	nontrivial = map[uint64]struct{}{}
	perClass   = map[string]int{}
)

func newStats() *stats {
	return &stats{Classes: map[string]int64{}, Excluded: map[string]int64{}, Known: map[string]string{},
		NotReproduced: map[string]string{}, Inconclusive: map[string]int64{}, Exhaustive: map[string]bool{}, Metrics: map[string]float64{}}
}

const maxHashes = 4_000_000

func hash(s string) uint64 {
	h := fnv.New64a()
	_, _ = h.Write([]byte(s))
	return h.Sum64()
}

// Case records one execution that reached the oracle. key is a canonical
// description of the case (used only to count distinct non-trivial cases), class
// feeds the generator-health histogram, sample is kept verbatim for a few cases.
func Case(key string, nontriv bool, class string, sample any) {
	mu.Lock()
	defer mu.Unlock()
	st.Evaluations++
	if class != "" {
		st.Classes[class]++
	}
	if nontriv {
		if len(nontrivial) < maxHashes {
			nontrivial[hash(key)] = struct{}{}
		}
	}
	if sample != nil && perClass[class] < 2 && len(st.Samples) < 14 && (nontriv || len(st.Samples) < 3) {
		if b, err := json.Marshal(sample); err == nil && len(b) < 6000 {
			perClass[class]++
			st.Samples = append(st.Samples, b)
		}
	}
}

// Bulk records n executions of an enumeration of which nt are non-trivial and
// distinct by construction (every point of the enumerated domain is visited once).
func Bulk(n, nt int64, class string) {
	mu.Lock()
	defer mu.Unlock()
	st.Evaluations += n
	st.DistinctExtra += nt
	if class != "" {
		st.Classes[class] += n
	}
}

func Sample(sample any) {
	mu.Lock()
	defer mu.Unlock()
	if len(st.Samples) < 14 {
		if b, err := json.Marshal(sample); err == nil && len(b) < 6000 {
			st.Samples = append(st.Samples, b)
		}
	}
}

func Class(name string) { ClassN(name, 1) }
func ClassN(name string, n int64) {
	mu.Lock()
	st.Classes[name] += n
	mu.Unlock()
}

// Exclude counts a case (or a choice) that the generator steered away from because it
// matches the signature of a listed known finding.
func Exclude(sig string) {
	mu.Lock()
	st.Excluded[sig]++
	mu.Unlock()
}

// Known records that the deterministic re-demonstration of a listed finding failed
// as described (the driver prints the KNOWN-FINDING line only if the id is listed).
func Known(id, what string) {
	mu.Lock()
	st.Known[id] = what
	mu.Unlock()
}

func NotReproduced(id, what string) {
	mu.Lock()
	st.NotReproduced[id] = what
	mu.Unlock()
}

func Inconclusive(why string) {
	mu.Lock()
	st.Inconclusive[why]++
	mu.Unlock()
}

func Note(format string, args ...any) {
	mu.Lock()
	if len(st.Notes) < 40 {
		st.Notes = append(st.Notes, fmt.Sprintf(format, args...))
	}
	mu.Unlock()
}

func Exhaustive(domain string) {
	mu.Lock()
	st.Exhaustive[domain] = true
	mu.Unlock()
}

func MetricMax(name string, v float64) {
	mu.Lock()
	if old, ok := st.Metrics[name]; !ok || v > old {
		st.Metrics[name] = v
	}
	mu.Unlock()
}

// Failure is the content of a replay file.
type Failure struct {
	Property string          `json:"property"`
	Test     string          `json:"test"`
	Message  string          `json:"message"`
	Case     json.RawMessage `json:"case"`
	Expect   string          `json:"expect,omitempty"` // committed replays: "pass" | "known:<id>"
	Note     string          `json:"note,omitempty"`
}

// Fail saves the failing case (overwriting earlier, larger ones of the same test:
// rapid re-runs the shrunk case last) and fails the test.
func Fail(t Failer, property, test string, c any, format string, args ...any) {
	t.Helper()
	msg := fmt.Sprintf(format, args...)
	SaveFailure(property, test, c, msg)
	t.Fatalf("ORACLE property=%s test=%s: %s", property, test, msg)
}

func SaveFailure(property, test string, c any, msg string) {
	dir := os.Getenv("VERIF_FAIL_DIR")
	if dir == "" {
		return
	}
	raw, err := json.Marshal(c)
	if err != nil {
		raw, _ = json.Marshal(fmt.Sprintf("%+v", c))
	}
	b, _ := json.MarshalIndent(Failure{Property: property, Test: test, Message: msg, Case: raw}, "", " ")
	_ = os.MkdirAll(dir, 0o755)
	shard := os.Getenv("VERIF_SHARD")
	tmp := filepath.Join(dir, fmt.Sprintf(".%s.%s.tmp", test, shard))
	if os.WriteFile(tmp, b, 0o644) == nil {
		_ = os.Rename(tmp, filepath.Join(dir, fmt.Sprintf("%s.%s.json", test, shard)))
	}
}

// Guard runs f and converts a panic of the code under test into an oracle failure.
func Guard(t Failer, property, test string, c any, f func()) {
	t.Helper()
	defer func() {
		if r := recover(); r != nil {
			if isTestAbort(r) {
				panic(r)
			}
			Fail(t, property, test, c, "panic: %v\n%s", r, trimStack(debug.Stack()))
		}
	}()
	f()
}

func isTestAbort(r any) bool {
	s := fmt.Sprintf("%T", r)
	return strings.Contains(s, "rapid.") // rapid unwinds with its own panic values
}

func trimStack(b []byte) string {
	s := string(b)
	if len(s) > 3000 {
		s = s[:3000]
	}
	return s
}

var replayers = map[string]func(t T, raw json.RawMessage){}

// RegisterReplay associates a test name with the function that runs its oracle once
// on a serialised case, bypassing the generator library.
func RegisterReplay(test string, f func(t T, raw json.RawMessage)) { replayers[test] = f }

// RunReplay replays $VERIF_REPLAY (one file). Used by every package's TestReplay.
func RunReplay(t *testing.T) {
	p := os.Getenv("VERIF_REPLAY")
	if p == "" {
		t.Skip("VERIF_REPLAY not set")
	}
	f, err := LoadFailure(p)
	if err != nil {
		t.Fatalf("HARNESS: cannot read replay %s: %v", p, err)
	}
	r, ok := replayers[f.Test]
	if !ok {
		t.Fatalf("HARNESS: no replayer for test %q", f.Test)
	}
	r(t, f.Case)
}

func LoadFailure(p string) (*Failure, error) {
	b, err := os.ReadFile(p)
	if err != nil {
		return nil, err
	}
	var f Failure
	if err := json.Unmarshal(b, &f); err != nil {
		return nil, err
	}
	return &f, nil
}

// Regressions runs every committed replay of the property directory: files that
// expect "pass" must pass (fixed findings stay fixed), files that expect
// "known:<id>" are expected to fail and are reported as re-demonstrated findings.
func Regressions(t *testing.T, property string) {
	dir := filepath.Join(Root(), "replays", strings.ToLower(property))
	files, _ := filepath.Glob(filepath.Join(dir, "*.json"))
	sort.Strings(files)
	for _, p := range files {
		f, err := LoadFailure(p)
		if err != nil {
			t.Fatalf("HARNESS: %s: %v", p, err)
		}
		r, ok := replayers[f.Test]
		if !ok {
			t.Fatalf("HARNESS: no replayer for test %q (%s)", f.Test, p)
		}
		name := strings.TrimSuffix(filepath.Base(p), ".json")
		if strings.HasPrefix(f.Expect, "known:") {
			id := strings.TrimPrefix(f.Expect, "known:")
			passed, msg := RunIsolated(func(it T) { r(it, f.Case) })
			if !passed {
				if len(msg) > 300 {
					msg = msg[:300]
				}
				Known(id, f.Note+" :: "+strings.ReplaceAll(msg, "\n", " "))
			} else {
				NotReproduced(id, "replay "+name+" passes on this tree")
			}
			Case("replay:"+name, true, "replay-known", nil)
			continue
		}
		if strings.HasPrefix(f.Expect, "found") {
			continue // left over from a reported violation; replay on request only
		}
		saved := os.Getenv("VERIF_FAIL_DIR")
		os.Setenv("VERIF_FAIL_DIR", "") // the committed file is the replay to name
		ok2 := t.Run(name, func(it *testing.T) {
			r(it, f.Case)
		})
		os.Setenv("VERIF_FAIL_DIR", saved)
		Case("replay:"+name, true, "replay-pass", nil)
		if !ok2 {
			// make sure the driver names the committed file
			mu.Lock()
			st.Notes = append(st.Notes, "REGRESSION "+p)
			mu.Unlock()
			regressionFailures = append(regressionFailures, p)
		}
	}
}

var regressionFailures []string

// Root is /verif (overridable for snapshots).
func Root() string {
	if r := os.Getenv("VERIF_ROOT"); r != "" {
		return r
	}
	return "/verif"
}

func Seed() uint64 {
	v, _ := strconv.ParseUint(os.Getenv("VERIF_SEED_DERIVED"), 10, 64)
	if v == 0 {
		v = 1
	}
	return v
}

func Tier() string {
	if os.Getenv("VERIF_TIER") == "thorough" {
		return "thorough"
	}
	return "quick"
}

func Thorough() bool { return Tier() == "thorough" }

// Shard returns (index, count) of this process among the driver's shards.
func Shard() (int, int) {
	i, _ := strconv.Atoi(os.Getenv("VERIF_SHARD"))
	n, _ := strconv.Atoi(os.Getenv("VERIF_SHARDS"))
	if n <= 0 {
		n = 1
	}
	return i, n
}

// Main is called from every package's TestMain.
func Main(m *testing.M) {
	code := m.Run()
	flush()
	os.Exit(code)
}

func flush() {
	out := os.Getenv("VERIF_EV_OUT")
	if out == "" {
		return
	}
	mu.Lock()
	defer mu.Unlock()
	b, _ := json.Marshal(struct {
		*stats
		Regressions []string `json:"regression_failures"`
	}{st, regressionFailures})
	_ = os.WriteFile(out, b, 0o644)
	buf := make([]byte, 0, 8*len(nontrivial))
	for h := range nontrivial {
		buf = binary.LittleEndian.AppendUint64(buf, h)
	}
	_ = os.WriteFile(out+".nt", buf, 0o644)
}
