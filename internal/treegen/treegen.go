// Package treegen generates directory trees as values (shrinkable, serialisable),
// writes them to a backend without going through the library under test, and takes
// library-independent snapshots to compare before/after states.
package treegen

import (
	"crypto/sha256"
	"encoding/hex"
	"fmt"
	"os"
	"path"
	"path/filepath"
	"sort"
	"strings"
	"time"

	"github.com/spf13/afero"
	"pgregory.net/rapid"
)

// Content is described, not stored.
type Content struct {
	Len  int    `json:"len"`
	Seed uint64 `json:"seed"`
	Kind int    `json:"kind"` // 0 zeros (compressible) 1 text-like pattern 2 pseudo-random (incompressible)
	Tag  string `json:"tag,omitempty"`
}

func (c Content) Bytes() []byte {
	b := make([]byte, c.Len)
	switch c.Kind {
	case 1:
		const al = "abcdefghij klmnopqrstuvwxyz\n"
		for i := range b {
			b[i] = al[(i*7+int(c.Seed))%len(al)]
		}
	case 2:
		x := c.Seed*2654435761 | 1
		for i := range b {
			x ^= x << 13
			x ^= x >> 7
			x ^= x << 17
			b[i] = byte(x >> 24)
		}
	}
	if c.Tag != "" {
		copy(b, c.Tag)
	}
	return b
}

// Node is one entry; Path is relative to the tree root, slash separated.
type Node struct {
	Path    string  `json:"path"`
	Kind    string  `json:"kind"` // dir | file | link
	Content Content `json:"content,omitempty"`
	Target  string  `json:"target,omitempty"` // link target as written (may be relative)
	Mode    uint32  `json:"mode,omitempty"`   // 0 = default
	MtimeS  int64   `json:"mtime,omitempty"`  // seconds; 0 = leave
}

type Tree []Node

// Names -----------------------------------------------------------------------------------------

var nastyParts = []string{"a", "b", "Z", "0", "9", "file", "dir", " ", ".", "..", "...", "-", "_", "~", "$", "'", "\"", ";", "&", "(", ")", "*", "?", "[", "]",
	"é", "日本", "🙂", "txt", ".txt", ".tar.gz", "x y", "%20", "#", "@", "+", "=", ",", "!", "{", "}", "^", "`", "|", "<", ">", ":"}

var smallNames = []string{"a", "b", "c", "ab", "x", ".a", "a.b", "a-b", "xa", "yb", "b.c", "a..b", "zz"}

// Name draws one legal file name (never "/", NUL, ".", ".."), from the nasty alphabet or the small one.
func Name(t *rapid.T, label string, small bool) string {
	if small {
		return rapid.SampledFrom(smallNames).Draw(t, label)
	}
	for tries := 0; ; tries++ {
		var parts []string
		switch rapid.IntRange(0, 9).Draw(t, label+"-class") {
		case 0, 1, 2, 3:
			parts = []string{rapid.SampledFrom([]string{"a", "b", "c", "file", "dir", "x1", "data", "Z"}).Draw(t, label)}
		case 4:
			parts = []string{rapid.SampledFrom([]string{"..a", "a..b", "...", "..hidden", ".a", "a.", "a..", "....", ".. ", " ..", "a..b..c", "..zip", "...zip", "x.zip", "x.gz", "a.jar", "a\\b", "back\\slash.txt", "w\\"}).Draw(t, label)}
		case 5:
			parts = []string{strings.Repeat(rapid.SampledFrom([]string{"a", "é", "xy"}).Draw(t, label+"-rep"), rapid.IntRange(20, 100).Draw(t, label+"-n"))}
		default:
			parts = rapid.SliceOfN(rapid.SampledFrom(nastyParts), 1, 6).Draw(t, label+"-parts")
		}
		n := strings.Join(parts, "")
		if n == "" || n == "." || n == ".." || strings.ContainsAny(n, "/\x00") || len(n) > 240 {
			if tries > 20 {
				return "fallback"
			}
			continue
		}
		return n
	}
}

type Options struct {
	MaxDepth           int
	MaxEntries         int
	Small              bool   // small alphabet (collisions wanted)
	Links              bool   // decorate with symbolic links (OS backend only)
	BigFiles           bool   // allow 64 KiB+ contents
	HugeFiles          bool   // allow MB contents
	Modes              bool   // read-only entries
	Mtimes             bool   // explicit modification times
	OutsideDir         string // link decoration: absolute path of a directory outside the tree
	OutsideFile        string
	KeepFileInEveryDir bool
}

func GenContent(t *rapid.T, label string, o Options) Content {
	var n int
	classes := 5
	if o.BigFiles {
		classes = 8
	}
	if o.HugeFiles {
		classes = 10
	}
	switch rapid.IntRange(0, classes).Draw(t, label+"-sizeclass") {
	case 0:
		n = 0
	case 1:
		n = 1
	case 2, 3:
		n = rapid.IntRange(0, 511).Draw(t, label+"-len")
	case 4, 5:
		n = rapid.SampledFrom([]int{4095, 4096, 4097, 511, 512, 513}).Draw(t, label+"-len")
	case 6, 7:
		n = rapid.SampledFrom([]int{32767, 32768, 32769, 65535, 65536, 65537}).Draw(t, label+"-len")
	case 8:
		n = rapid.IntRange(0, 200000).Draw(t, label+"-len")
	default:
		n = rapid.IntRange(1<<20, 3<<20).Draw(t, label+"-len")
	}
	return Content{Len: n, Seed: rapid.Uint64Range(0, 1<<16).Draw(t, label+"-seed"), Kind: rapid.IntRange(0, 2).Draw(t, label+"-kind")}
}

// Gen draws a tree: directories first, then files, then link decorations.
func Gen(t *rapid.T, label string, o Options) Tree {
	if o.MaxDepth == 0 {
		o.MaxDepth = 4
	}
	if o.MaxEntries == 0 {
		o.MaxEntries = 30
	}
	var tree Tree
	dirs := []string{""} // "" = root
	depth := map[string]int{"": 0}
	used := map[string]bool{}
	n := rapid.IntRange(0, o.MaxEntries).Draw(t, label+"-entries")
	for i := 0; i < n; i++ {
		parent := dirs[rapid.IntRange(0, len(dirs)-1).Draw(t, fmt.Sprintf("%s-parent%d", label, i))]
		name := Name(t, fmt.Sprintf("%s-name%d", label, i), o.Small)
		p := path.Join(parent, name)
		if used[p] {
			continue
		}
		used[p] = true
		isDir := rapid.IntRange(0, 2).Draw(t, fmt.Sprintf("%s-isdir%d", label, i)) == 0 && depth[parent] < o.MaxDepth
		nd := Node{Path: p}
		if isDir {
			nd.Kind = "dir"
			dirs = append(dirs, p)
			depth[p] = depth[parent] + 1
		} else {
			nd.Kind = "file"
			nd.Content = GenContent(t, fmt.Sprintf("%s-c%d", label, i), o)
		}
		if o.Modes && rapid.IntRange(0, 5).Draw(t, fmt.Sprintf("%s-ro%d", label, i)) == 0 {
			if isDir {
				nd.Mode = 0o555
			} else {
				nd.Mode = 0o444
			}
		}
		if o.Mtimes {
			nd.MtimeS = rapid.Int64Range(315532800+86400, 1893456000).Draw(t, fmt.Sprintf("%s-mt%d", label, i)) // 1980..2030
		}
		tree = append(tree, nd)
	}
	if o.KeepFileInEveryDir {
		for _, d := range dirs {
			if d == "" {
				continue
			}
			has := false
			for _, nd := range tree {
				if nd.Kind == "file" && path.Dir(nd.Path) == d {
					has = true
				}
			}
			if !has {
				tree = append(tree, Node{Path: path.Join(d, "keep"), Kind: "file", Content: Content{Len: 3, Kind: 1}})
			}
		}
	}
	if o.Links {
		nl := rapid.IntRange(0, 5).Draw(t, label+"-links")
		for i := 0; i < nl; i++ {
			parent := dirs[rapid.IntRange(0, len(dirs)-1).Draw(t, fmt.Sprintf("%s-lparent%d", label, i))]
			p := path.Join(parent, fmt.Sprintf("lnk%d", i))
			kind := rapid.SampledFrom([]string{"file-in", "dir-in", "dir-out", "file-out", "ancestor", "dangling", "chain", "self"}).Draw(t, fmt.Sprintf("%s-lkind%d", label, i))
			nd := Node{Path: p, Kind: "link"}
			switch kind {
			case "file-in", "dir-in":
				want := "file"
				if kind == "dir-in" {
					want = "dir"
				}
				var cands []string
				for _, x := range tree {
					if x.Kind == want {
						cands = append(cands, x.Path)
					}
				}
				if len(cands) == 0 {
					nd.Target = "nowhere-" + kind
				} else {
					target := cands[rapid.IntRange(0, len(cands)-1).Draw(t, fmt.Sprintf("%s-ltarget%d", label, i))]
					rel, _ := filepath.Rel(path.Join("/r", parent), path.Join("/r", target))
					nd.Target = rel
				}
			case "dir-out":
				nd.Target = o.OutsideDir
				if nd.Target == "" {
					nd.Target = "nowhere"
				}
			case "file-out":
				nd.Target = o.OutsideFile
				if nd.Target == "" {
					nd.Target = "nowhere"
				}
			case "ancestor":
				nd.Target = ".."
				if rapid.Bool().Draw(t, fmt.Sprintf("%s-lanc%d", label, i)) {
					nd.Target = "."
				}
			case "dangling":
				nd.Target = "does-not-exist"
			case "chain":
				nd.Target = fmt.Sprintf("lnk%d", (i+1)%nl)
			case "self":
				nd.Target = fmt.Sprintf("lnk%d", i)
			}
			tree = append(tree, nd)
		}
	}
	return tree
}

// Write materialises the tree under root on a raw backend (not the library). Links need the OS.
func (tr Tree) Write(fs afero.Fs, root string) error {
	if err := fs.MkdirAll(root, 0o755); err != nil {
		return err
	}
	// parents before children; read-only modes and times applied last, deepest first
	for _, n := range tr {
		p := filepath.Join(root, filepath.FromSlash(n.Path))
		switch n.Kind {
		case "dir":
			if err := fs.MkdirAll(p, 0o755); err != nil {
				return err
			}
		case "file":
			if err := fs.MkdirAll(filepath.Dir(p), 0o755); err != nil {
				return err
			}
			if err := afero.WriteFile(fs, p, n.Content.Bytes(), 0o644); err != nil {
				return err
			}
		case "link":
			if err := fs.MkdirAll(filepath.Dir(p), 0o755); err != nil {
				return err
			}
			l, ok := fs.(afero.Linker)
			if !ok {
				return fmt.Errorf("backend cannot create links")
			}
			if err := l.SymlinkIfPossible(n.Target, p); err != nil {
				return err
			}
		}
	}
	for i := len(tr) - 1; i >= 0; i-- {
		n := tr[i]
		if n.Kind == "link" {
			continue
		}
		p := filepath.Join(root, filepath.FromSlash(n.Path))
		if n.MtimeS != 0 {
			mt := time.Unix(n.MtimeS, 0)
			if err := fs.Chtimes(p, mt, mt); err != nil {
				return err
			}
		}
	}
	for i := len(tr) - 1; i >= 0; i-- {
		n := tr[i]
		if n.Kind == "link" || n.Mode == 0 {
			continue
		}
		p := filepath.Join(root, filepath.FromSlash(n.Path))
		if err := fs.Chmod(p, os.FileMode(n.Mode)); err != nil {
			return err
		}
	}
	return nil
}

// MakeWritable undoes read-only modes below root so that temporary directories can be removed.
func MakeWritable(root string) {
	_ = filepath.Walk(root, func(p string, info os.FileInfo, err error) error {
		if err == nil && info.Mode()&os.ModeSymlink == 0 {
			if info.IsDir() {
				_ = os.Chmod(p, 0o755)
			}
		}
		return nil
	})
}

// Entry is one line of a snapshot.
type Entry struct {
	Kind   string `json:"kind"`
	Size   int64  `json:"size,omitempty"`
	Sha    string `json:"sha,omitempty"`
	Target string `json:"target,omitempty"`
	Mode   uint32 `json:"mode,omitempty"`
	MtimeN int64  `json:"mtime_ns,omitempty"`
}

// Snapshot maps slash-separated paths relative to root to their description. It never follows links.
type Snapshot map[string]Entry

// Snap takes a snapshot of everything below root (root itself is entry "."), with Lstat semantics.
func Snap(fs afero.Fs, root string) (Snapshot, error) {
	out := Snapshot{}
	var walk func(p, rel string) error
	lstat := func(p string) (os.FileInfo, error) {
		if l, ok := fs.(afero.Lstater); ok {
			fi, _, err := l.LstatIfPossible(p)
			return fi, err
		}
		return fs.Stat(p)
	}
	walk = func(p, rel string) error {
		fi, err := lstat(p)
		if err != nil {
			return err
		}
		e := Entry{Mode: uint32(fi.Mode().Perm()), MtimeN: fi.ModTime().UnixNano()}
		switch {
		case fi.Mode()&os.ModeSymlink != 0:
			e.Kind = "link"
			if lr, ok := fs.(afero.LinkReader); ok {
				e.Target, _ = lr.ReadlinkIfPossible(p)
			}
		case fi.IsDir():
			e.Kind = "dir"
		default:
			e.Kind = "file"
			e.Size = fi.Size()
			b, err := afero.ReadFile(fs, p)
			if err != nil {
				e.Sha = "unreadable:" + err.Error()
			} else {
				s := sha256.Sum256(b)
				e.Sha = hex.EncodeToString(s[:8])
				e.Size = int64(len(b))
			}
		}
		out[rel] = e
		if e.Kind == "dir" {
			f, err := fs.Open(p)
			if err != nil {
				return nil // unreadable directory: recorded as a directory
			}
			names, err := f.Readdirnames(-1)
			_ = f.Close()
			if err != nil {
				return nil
			}
			sort.Strings(names)
			for _, n := range names {
				cr := n
				if rel != "." {
					cr = rel + "/" + n
				}
				// an entry that vanished between the listing and the lstat is simply not part of the snapshot
				_ = walk(filepath.Join(p, n), cr)
			}
		}
		return nil
	}
	if _, err := lstat(root); err != nil {
		return out, nil // missing root: empty snapshot
	}
	return out, walk(root, ".")
}

// Diff lists differences between two snapshots. ignoreTimes / ignoreModes relax the comparison;
// directory mtimes change whenever an entry is added below, so callers choose.
type DiffOptions struct {
	IgnoreTimes    bool
	IgnoreDirTimes bool
	IgnoreModes    bool
	Under          string   // only compare entries equal to or below this relative path ("" = all)
	Except         []string // ignore entries equal to or below these relative paths
}

func within(rel, base string) bool {
	if base == "" || base == "." {
		return true
	}
	return rel == base || strings.HasPrefix(rel, base+"/")
}

func Diff(a, b Snapshot, o DiffOptions) []string {
	var out []string
	skip := func(rel string) bool {
		if o.Under != "" && !within(rel, o.Under) {
			return true
		}
		for _, e := range o.Except {
			if e == "." || within(rel, e) {
				return true
			}
		}
		return false
	}
	for rel, ea := range a {
		if skip(rel) {
			continue
		}
		eb, ok := b[rel]
		if !ok {
			out = append(out, fmt.Sprintf("removed: %s (%s)", rel, ea.Kind))
			continue
		}
		if ea.Kind != eb.Kind {
			out = append(out, fmt.Sprintf("kind changed: %s %s -> %s", rel, ea.Kind, eb.Kind))
			continue
		}
		if ea.Kind == "file" && (ea.Size != eb.Size || ea.Sha != eb.Sha) {
			out = append(out, fmt.Sprintf("content changed: %s (%d B %s -> %d B %s)", rel, ea.Size, ea.Sha, eb.Size, eb.Sha))
		}
		if ea.Kind == "link" && ea.Target != eb.Target {
			out = append(out, fmt.Sprintf("link target changed: %s %q -> %q", rel, ea.Target, eb.Target))
		}
		if !o.IgnoreModes && ea.Kind != "link" && ea.Mode != eb.Mode {
			out = append(out, fmt.Sprintf("mode changed: %s %o -> %o", rel, ea.Mode, eb.Mode))
		}
		if !o.IgnoreTimes && ea.Kind != "link" && !(o.IgnoreDirTimes && ea.Kind == "dir") && ea.MtimeN != eb.MtimeN {
			out = append(out, fmt.Sprintf("mtime changed: %s %d -> %d", rel, ea.MtimeN, eb.MtimeN))
		}
	}
	for rel, eb := range b {
		if skip(rel) {
			continue
		}
		if _, ok := a[rel]; !ok {
			out = append(out, fmt.Sprintf("created: %s (%s)", rel, eb.Kind))
		}
	}
	sort.Strings(out)
	return out
}

// Expected converts a tree into the snapshot it should produce (kinds, sizes, hashes only).
func (tr Tree) Expected() Snapshot {
	out := Snapshot{".": {Kind: "dir"}}
	for _, n := range tr {
		// implicit parents
		for d := path.Dir(n.Path); d != "." && d != "/"; d = path.Dir(d) {
			if _, ok := out[d]; !ok {
				out[d] = Entry{Kind: "dir"}
			}
		}
		switch n.Kind {
		case "dir":
			out[n.Path] = Entry{Kind: "dir", MtimeN: n.MtimeS * 1e9}
		case "file":
			b := n.Content.Bytes()
			s := sha256.Sum256(b)
			out[n.Path] = Entry{Kind: "file", Size: int64(len(b)), Sha: hex.EncodeToString(s[:8]), MtimeN: n.MtimeS * 1e9}
		case "link":
			out[n.Path] = Entry{Kind: "link", Target: n.Target}
		}
	}
	return out
}
