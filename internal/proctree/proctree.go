// Package proctree gives the subprocess checks (C05, C18) a scriptable child: the test binary re-executes itself as a
// helper process when VERIF_HELPER names a script file. A script describes what the process writes to its standard
// streams (chunk by chunk, with pauses), which children it spawns (each again a helper running a sub-script), which
// signals it ignores, how long it lives and how it ends. Every helper registers itself in the directory of the case
// (<dir>/<node>.pid) and carries the token of the case in its environment, so that the harness can find every member of
// the tree in /proc whatever happened to its parent.
package proctree

import (
	"encoding/json"
	"fmt"
	"os"
	"os/exec"
	"os/signal"
	"path/filepath"
	"sort"
	"strconv"
	"strings"
	"syscall"
	"time"
	"unsafe"
)

// The helper is recognised by its command line (not by its environment: a library that dropped the environment would
// otherwise turn every child into a full test run).
const (
	argScript = "-verif-helper="
	argNode   = "-verif-node="
)

// Write is one write(2) on a standard stream followed by a pause.
type Write struct {
	Stream  int    `json:"stream"` // 1 | 2
	Data    []byte `json:"data"`
	PauseUs int    `json:"pause_us,omitempty"`
}

// Node is the behaviour of one process of the tree.
type Node struct {
	Writes     []Write `json:"writes,omitempty"`
	Children   []Node  `json:"children,omitempty"`
	IgnoreTerm bool    `json:"ignore_term,omitempty"`
	// ClosePipes: the process closes the inherited standard output / error at once (a well-behaved daemon);
	// otherwise it keeps them open for as long as it lives.
	ClosePipes bool `json:"close_pipes,omitempty"`
	// NewGroup: the process leaves the process group it was born in (setpgid(0,0)).
	NewGroup bool `json:"new_group,omitempty"`
	// LiveMs: how long the process stays alive after its writes (and after starting its children).
	LiveMs int `json:"live_ms,omitempty"`
	// WaitChildren: wait for the children before exiting (sh's `wait`); otherwise exit after LiveMs and orphan them.
	WaitChildren bool `json:"wait_children,omitempty"`
	Exit         int  `json:"exit,omitempty"`
	Signal       int  `json:"signal,omitempty"` // die by this signal instead of exiting
	// EchoEnv: names of environment variables whose values are written to standard output first ("NAME=value\n").
	EchoEnv []string `json:"echo_env,omitempty"`
	// ChattyMs: while it lives (LiveMs) the process writes a line to its standard output every ChattyMs milliseconds
	ChattyMs int `json:"chatty_ms,omitempty"`
}

// Count returns the number of processes of the tree.
func (n *Node) Count() int {
	c := 1
	for i := range n.Children {
		c += n.Children[i].Count()
	}
	return c
}

// Script is what the root helper receives.
type Script struct {
	Dir  string `json:"dir"`
	Root Node   `json:"root"`
}

// Save writes the script where helpers can read it and returns the arguments to pass to the root helper.
func (s *Script) Save() (args []string, err error) {
	b, err := json.Marshal(s)
	if err != nil {
		return nil, err
	}
	p := filepath.Join(s.Dir, "script.json")
	if err = os.WriteFile(p, b, 0o600); err != nil {
		return nil, err
	}
	return []string{argScript + p, argNode + "r"}, nil
}

// Self is the path of the running test binary (the command to execute as a helper).
func Self() string {
	p, err := os.Executable()
	if err != nil {
		return os.Args[0]
	}
	return p
}

// MaybeRunHelper must be called first thing in TestMain: when the process is a helper it never returns.
func MaybeRunHelper() {
	p, path := "", ""
	for _, a := range os.Args[1:] {
		if strings.HasPrefix(a, argScript) {
			p = strings.TrimPrefix(a, argScript)
		}
		if strings.HasPrefix(a, argNode) {
			path = strings.TrimPrefix(a, argNode)
		}
	}
	if p == "" {
		return
	}
	b, err := os.ReadFile(p)
	if err != nil {
		fmt.Fprintf(os.Stderr, "helper: %v\n", err)
		os.Exit(250)
	}
	var s Script
	if err := json.Unmarshal(b, &s); err != nil {
		fmt.Fprintf(os.Stderr, "helper: %v\n", err)
		os.Exit(250)
	}
	n := &s.Root
	for _, part := range strings.Split(path, ".")[1:] {
		i, _ := strconv.Atoi(part)
		n = &n.Children[i]
	}
	runNode(&s, path, n)
	os.Exit(0)
}

func runNode(s *Script, path string, n *Node) {
	if n.IgnoreTerm {
		signal.Ignore(syscall.SIGTERM, syscall.SIGINT, syscall.SIGHUP)
	}
	if n.NewGroup {
		_ = syscall.Setpgid(0, 0)
	}
	// registration: pid, process group, parent
	reg := fmt.Sprintf("%d %d %d\n", os.Getpid(), syscall.Getpgrp(), os.Getppid())
	name := fmt.Sprintf("%s-%d", path, os.Getpid())
	tmp := filepath.Join(s.Dir, name+".tmp")
	_ = os.WriteFile(tmp, []byte(reg), 0o600)
	_ = os.Rename(tmp, filepath.Join(s.Dir, name+".pid"))

	for _, name := range n.EchoEnv {
		fmt.Fprintf(os.Stdout, "%s=%s\n", name, os.Getenv(name))
	}
	if n.ClosePipes {
		null, _ := os.OpenFile(os.DevNull, os.O_RDWR, 0)
		if null != nil {
			_ = syscall.Dup2(int(null.Fd()), 1)
			_ = syscall.Dup2(int(null.Fd()), 2)
		}
	}
	var kids []*exec.Cmd
	for i := range n.Children {
		c := exec.Command(Self(), argScript+filepath.Join(s.Dir, "script.json"), argNode+path+"."+strconv.Itoa(i))
		c.Stdout, c.Stderr = os.Stdout, os.Stderr // children inherit the pipes; they close them themselves if told to
		if err := c.Start(); err == nil {
			kids = append(kids, c)
		}
	}
	for _, w := range n.Writes {
		f := os.Stdout
		if w.Stream == 2 {
			f = os.Stderr
		}
		data := w.Data
		for len(data) > 0 {
			k, err := syscall.Write(int(f.Fd()), data)
			if err != nil {
				if err == syscall.EINTR || err == syscall.EAGAIN {
					continue
				}
				break
			}
			data = data[k:]
		}
		if w.PauseUs > 0 {
			time.Sleep(time.Duration(w.PauseUs) * time.Microsecond)
		}
	}
	if n.LiveMs > 0 && n.ChattyMs > 0 {
		for end := time.Now().Add(time.Duration(n.LiveMs) * time.Millisecond); time.Now().Before(end); {
			if _, werr := syscall.Write(1, []byte("still here\n")); werr != nil && werr != syscall.EINTR && werr != syscall.EAGAIN {
				os.Exit(141) // nobody reads any more: what SIGPIPE does to an ordinary program
			}
			time.Sleep(time.Duration(n.ChattyMs) * time.Millisecond)
		}
	} else if n.LiveMs > 0 {
		time.Sleep(time.Duration(n.LiveMs) * time.Millisecond)
	}
	if n.WaitChildren {
		for _, k := range kids {
			_ = k.Wait()
		}
	}
	// the process reached the end of its script by itself (it was not stopped from outside): leave a trace of it
	_ = os.WriteFile(filepath.Join(s.Dir, fmt.Sprintf("%s-%d.end", path, os.Getpid())), nil, 0o600)
	if n.Signal != 0 {
		signal.Reset(syscall.Signal(n.Signal))
		_ = syscall.Kill(os.Getpid(), syscall.Signal(n.Signal))
		time.Sleep(5 * time.Second)
	}
	os.Exit(n.Exit)
}

// Member is a registered process of a case.
type Member struct {
	Node string
	Pid  int
	Pgid int
	Ppid int
}

// Registered lists the helpers that have registered in dir so far.
func Registered(dir string) []Member {
	es, _ := os.ReadDir(dir)
	var out []Member
	for _, e := range es {
		if !strings.HasSuffix(e.Name(), ".pid") {
			continue
		}
		b, err := os.ReadFile(filepath.Join(dir, e.Name()))
		if err != nil {
			continue
		}
		var m Member
		if _, err := fmt.Sscanf(string(b), "%d %d %d", &m.Pid, &m.Pgid, &m.Ppid); err == nil {
			m.Node = strings.TrimSuffix(e.Name(), ".pid")
			if i := strings.LastIndex(m.Node, "-"); i > 0 {
				m.Node = m.Node[:i]
			}
			out = append(out, m)
		}
	}
	sort.Slice(out, func(i, j int) bool { return out[i].Node < out[j].Node })
	return out
}

// WaitRegistered waits until n helpers have registered (or the timeout passes) and returns them.
func WaitRegistered(dir string, n int, timeout time.Duration) []Member {
	end := time.Now().Add(timeout)
	for {
		m := Registered(dir)
		if len(m) >= n || time.Now().After(end) {
			return m
		}
		time.Sleep(2 * time.Millisecond)
	}
}

// EndedByItself reports whether the process of the given node and pid reached the end of its script (as opposed to
// having been stopped from outside).
func EndedByItself(dir, node string, pid int) bool {
	_, err := os.Stat(filepath.Join(dir, fmt.Sprintf("%s-%d.end", node, pid)))
	return err == nil
}

// Proc is a live (or zombie) process found in /proc.
type Proc struct {
	Pid   int
	Ppid  int
	Pgid  int
	State string // R S D Z T ...
	Node  string
}

// Scan finds every process of the case: its command line names the script of the case (zombies have no command line
// left: they are matched through the registered pids).
func Scan(dir string, registered []Member) []Proc {
	byPid := map[int]string{}
	for _, m := range registered {
		byPid[m.Pid] = m.Node
	}
	marker := argScript + filepath.Join(dir, "script.json")
	es, _ := os.ReadDir("/proc")
	var out []Proc
	for _, e := range es {
		pid, err := strconv.Atoi(e.Name())
		if err != nil {
			continue
		}
		st, ok := readStat(pid)
		if !ok {
			continue
		}
		node, known := byPid[pid]
		match := false
		if cl, err := os.ReadFile(filepath.Join("/proc", e.Name(), "cmdline")); err == nil && len(cl) > 0 {
			for _, a := range strings.Split(string(cl), "\x00") {
				if a == marker {
					match = true
				}
				if strings.HasPrefix(a, argNode) && node == "" {
					node = strings.TrimPrefix(a, argNode)
				}
			}
		} else if known && st.State == "Z" {
			match = true
		}
		if match {
			st.Node = node
			out = append(out, st)
		}
	}
	return out
}

func readStat(pid int) (Proc, bool) {
	b, err := os.ReadFile(fmt.Sprintf("/proc/%d/stat", pid))
	if err != nil {
		return Proc{}, false
	}
	s := string(b)
	i := strings.LastIndex(s, ")")
	if i < 0 {
		return Proc{}, false
	}
	f := strings.Fields(s[i+1:])
	if len(f) < 3 {
		return Proc{}, false
	}
	p := Proc{Pid: pid, State: f[0]}
	p.Ppid, _ = strconv.Atoi(f[1])
	p.Pgid, _ = strconv.Atoi(f[2])
	return p, true
}

// KillAll kills (SIGKILL) every process found and reaps what is ours.
func KillAll(ps []Proc) {
	for _, p := range ps {
		_ = syscall.Kill(p.Pid, syscall.SIGKILL)
	}
}

var fullMask [16]uintptr // the processors the process may use, read before anything is confined

func init() {
	_, _, _ = syscall.RawSyscall(syscall.SYS_SCHED_GETAFFINITY, 0, uintptr(len(fullMask)*8), uintptr(unsafe.Pointer(&fullMask[0])))
}

// Confine restricts every thread of the calling process (and so every process it starts from now on) to one
// processor and returns the function that undoes it. With more runnable threads than that processor can serve, the
// goroutines of the code under test wait for their turn as they would on an overloaded machine: schedules that are
// otherwise seen once in a thousand runs become common.
func Confine() (restore func()) {
	old := fullMask
	var one [16]uintptr
	found := false
	for i := range old {
		for b := 0; b < 64 && !found; b++ {
			if old[i]&(1<<b) != 0 {
				one[i] = 1 << b
				found = true
			}
		}
	}
	if !found {
		return func() {}
	}
	// threads are born with the mask of the thread that creates them: go over the list until nothing new shows up
	setAll := func(mask *[16]uintptr) {
		seen := map[int]bool{}
		for pass := 0; pass < 5; pass++ {
			fresh := 0
			es, _ := os.ReadDir("/proc/self/task")
			for _, e := range es {
				if tid, err := strconv.Atoi(e.Name()); err == nil {
					if !seen[tid] {
						fresh++
						seen[tid] = true
					}
					_, _, _ = syscall.RawSyscall(syscall.SYS_SCHED_SETAFFINITY, uintptr(tid), uintptr(len(mask)*8), uintptr(unsafe.Pointer(&mask[0])))
				}
			}
			if fresh == 0 {
				break
			}
		}
	}
	setAll(&one)
	return func() { setAll(&old) }
}
