// Package baton is a cooperative scheduler at the afero boundary: every client runs its API calls in
// its own goroutine; before each foreground backend operation the client parks until the coordinator
// (the property function) grants it. The coordinator draws priority lists, so every draw is valid
// whatever the timing. Background operations (heart-beats) are never parked.
package baton

import (
	"sync"
	"time"

	"verif/internal/fsx"
)

type parked struct {
	op   *fsx.Op
	wake chan struct{}
}

type Sched struct {
	mu       sync.Mutex
	cond     *sync.Cond
	b        *fsx.Backend
	active   map[string]bool    // clients currently scheduled
	waiting  map[string]*parked // clients parked on an operation
	running  map[string]int     // programs in flight per client
	finished map[string]bool
	isBg     func(op *fsx.Op) bool
	Settle   time.Duration
	Grants   int64
	events   int64
	OnGrant  func(client string, op *fsx.Op)
	OnAfter  func(op *fsx.Op)
}

// New installs the scheduler on the backend. isBackground classifies operations that must never be parked.
func New(b *fsx.Backend, isBackground func(op *fsx.Op) bool) *Sched {
	s := &Sched{b: b, active: map[string]bool{}, waiting: map[string]*parked{}, running: map[string]int{}, finished: map[string]bool{}, isBg: isBackground, Settle: 400 * time.Microsecond}
	s.cond = sync.NewCond(&s.mu)
	b.Before = s.before
	b.After = func(op *fsx.Op) {
		if s.OnAfter != nil {
			s.OnAfter(op)
		}
	}
	return s
}

func (s *Sched) before(op *fsx.Op) {
	s.mu.Lock()
	if !s.active[op.Client] || (s.isBg != nil && s.isBg(op)) {
		s.mu.Unlock()
		return
	}
	p := &parked{op: op, wake: make(chan struct{})}
	s.waiting[op.Client] = p
	s.events++
	s.cond.Broadcast()
	s.mu.Unlock()
	<-p.wake
}

// Go runs f as the foreground program of the client: its backend operations are parked.
func (s *Sched) Go(client string, f func()) {
	s.mu.Lock()
	s.active[client] = true
	s.running[client]++
	s.mu.Unlock()
	go func() {
		defer func() {
			s.mu.Lock()
			s.running[client]--
			if s.running[client] == 0 {
				s.finished[client] = true
				s.active[client] = false
			}
			s.events++
			s.cond.Broadcast()
			s.mu.Unlock()
		}()
		f()
	}()
}

// AllDone reports whether every program has ended.
func (s *Sched) AllDone() bool {
	s.mu.Lock()
	defer s.mu.Unlock()
	for _, n := range s.running {
		if n > 0 {
			return false
		}
	}
	return true
}

// Peek returns the operation a client is parked on (nil if it is not parked).
func (s *Sched) Peek(client string) *fsx.Op {
	s.mu.Lock()
	defer s.mu.Unlock()
	if p := s.waiting[client]; p != nil {
		return p.op
	}
	return nil
}

// waitEvent waits until something changes (a client parks or ends) or the timeout passes.
func (s *Sched) waitEvent(seen int64, d time.Duration) {
	deadline := time.Now().Add(d)
	timer := time.AfterFunc(d, func() { s.mu.Lock(); s.cond.Broadcast(); s.mu.Unlock() })
	defer timer.Stop()
	s.mu.Lock()
	for s.events == seen && time.Now().Before(deadline) {
		s.cond.Wait()
	}
	s.mu.Unlock()
}

// Step grants one operation to the first client of prio that is parked and eligible. It returns the
// client granted ("" if none was parked within the patience interval).
func (s *Sched) Step(prio []string, eligible func(client string, op *fsx.Op) bool, patience time.Duration) string {
	end := time.Now().Add(patience)
	for {
		s.mu.Lock()
		var chosen string
		var p *parked
		for _, c := range prio {
			if w := s.waiting[c]; w != nil && (eligible == nil || eligible(c, w.op)) {
				chosen, p = c, w
				break
			}
		}
		seen := s.events
		if p != nil {
			delete(s.waiting, chosen)
			s.Grants++
			if s.OnGrant != nil {
				s.OnGrant(chosen, p.op)
			}
			close(p.wake)
			s.mu.Unlock()
			// let the client reach its next operation (or end, or go to sleep in library code)
			s.waitClient(chosen, seen)
			return chosen
		}
		anyRunning := false
		for _, n := range s.running {
			if n > 0 {
				anyRunning = true
			}
		}
		s.mu.Unlock()
		if !anyRunning || time.Now().After(end) {
			return ""
		}
		s.waitEvent(seen, 2*time.Millisecond)
	}
}

func (s *Sched) waitClient(client string, seen int64) {
	deadline := time.Now().Add(s.Settle)
	for time.Now().Before(deadline) {
		s.mu.Lock()
		parkedAgain := s.waiting[client] != nil
		ended := s.running[client] == 0
		s.mu.Unlock()
		if parkedAgain || ended {
			return
		}
		time.Sleep(20 * time.Microsecond)
	}
}

// ReleaseAll stops scheduling: every parked and future operation proceeds freely.
func (s *Sched) ReleaseAll() {
	s.mu.Lock()
	for c := range s.active {
		s.active[c] = false
	}
	for c, p := range s.waiting {
		close(p.wake)
		delete(s.waiting, c)
	}
	s.cond.Broadcast()
	s.mu.Unlock()
}
