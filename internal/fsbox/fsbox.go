// Package fsbox builds a sandboxed, instrumented filesystem.FS on either backend.
package fsbox

import (
	"os"
	"path/filepath"

	"github.com/spf13/afero"

	"github.com/ARM-software/golang-utils/utils/filesystem"

	"verif/internal/fsx"
	"verif/internal/treegen"
)

// Box is one sandbox: Root is an absolute path inside which everything of a case lives.
type Box struct {
	Kind    string // "mem" | "os"
	Root    string
	Raw     afero.Fs // the uninstrumented backend (for set-up and snapshots)
	Backend *fsx.Backend
	Client  *fsx.Client
	FS      filesystem.FS
}

// New creates a sandbox. The OS variant lives in a fresh temporary directory (TMPDIR).
func New(kind string) *Box { return NewAt(kind, "", "box-", "/box") }

// NewAt creates a sandbox whose OS root is os.MkdirTemp(parent, prefix) and whose in-memory root is memRoot:
// for checks that need a root path free of certain characters.
func NewAt(kind, parent, prefix, memRoot string) *Box {
	b := &Box{Kind: kind}
	if kind == "mem" {
		b.Raw = afero.NewMemMapFs()
		b.Root = memRoot
		_ = b.Raw.MkdirAll(b.Root, 0o755)
		b.Backend = fsx.NewBackend(b.Raw)
		b.Backend.Serialize = true
		b.Client = b.Backend.Client("c0")
		b.FS = filesystem.NewVirtualFileSystem(b.Client.Fs(false), filesystem.InMemoryFS, filesystem.IdentityPathConverterFunc)
		return b
	}
	dir, err := os.MkdirTemp(parent, prefix)
	if err != nil {
		panic(err)
	}
	dir, _ = filepath.EvalSymlinks(dir)
	b.Raw = filesystem.NewExtendedOsFs()
	b.Root = dir
	b.Backend = fsx.NewBackend(b.Raw)
	b.Client = b.Backend.Client("c0")
	b.FS = filesystem.NewVirtualFileSystem(b.Client.Fs(true), filesystem.StandardFS, filesystem.IdentityPathConverterFunc)
	return b
}

// NewClient adds another client (own VFS, own handle) on the same backend.
func (b *Box) NewClient(name string) (*fsx.Client, filesystem.FS) {
	c := b.Backend.Client(name)
	if b.Kind == "mem" {
		return c, filesystem.NewVirtualFileSystem(c.Fs(false), filesystem.InMemoryFS, filesystem.IdentityPathConverterFunc)
	}
	return c, filesystem.NewVirtualFileSystem(c.Fs(true), filesystem.StandardFS, filesystem.IdentityPathConverterFunc)
}

func (b *Box) Path(rel ...string) string {
	return filepath.Join(append([]string{b.Root}, rel...)...)
}

func (b *Box) Snap(rel ...string) treegen.Snapshot {
	s, _ := treegen.Snap(b.Raw, b.Path(rel...))
	return s
}

// Close removes the sandbox.
func (b *Box) Close() {
	if b.Kind == "os" && b.Root != "" && b.Root != "/" {
		treegen.MakeWritable(b.Root)
		_ = os.RemoveAll(b.Root)
	}
}
