// Package fsx is an instrumented afero.Fs: it records every backend operation in one
// total order, classifies mutations, tracks open handles and bytes written, injects
// faults / revocations / cancellations at chosen operation indices, bounds the work
// of a call, and offers Before/After hooks on which a scheduler can park a client.
// The library under test receives it through filesystem.NewVirtualFileSystem.
package fsx

import (
	"errors"
	"fmt"
	"io"
	"os"
	"path/filepath"
	"strings"
	"sync"
	"sync/atomic"
	"syscall"
	"time"

	"github.com/spf13/afero"
)

// Op is one recorded backend operation.
type Op struct {
	Seq      int64  `json:"seq"`
	Client   string `json:"client,omitempty"`
	Handle   int64  `json:"handle,omitempty"` // 0 for Fs-level operations
	Kind     string `json:"op"`
	Path     string `json:"path,omitempty"`
	Path2    string `json:"path2,omitempty"`
	Flags    int    `json:"flags,omitempty"`
	N        int    `json:"n,omitempty"` // bytes read / written
	Mutating bool   `json:"mut,omitempty"`
	Err      string `json:"err,omitempty"`
	Injected bool   `json:"injected,omitempty"`
	Start    int64  `json:"-"` // unix nanos
	End      int64  `json:"-"`
	Gid      uint64 `json:"-"`
	ModTime  int64  `json:"-"` // stat / lstat: modification time reported (unix nanos)
	Len      int    `json:"-"` // write operations: number of bytes requested
}

func (o Op) String() string {
	s := fmt.Sprintf("#%d %s %s", o.Seq, o.Client, o.Kind)
	if o.Handle != 0 {
		s += fmt.Sprintf("[h%d]", o.Handle)
	}
	s += " " + o.Path
	if o.Path2 != "" {
		s += " -> " + o.Path2
	}
	if o.N != 0 {
		s += fmt.Sprintf(" n=%d", o.N)
	}
	if o.Err != "" {
		s += " ERR(" + o.Err + ")"
	}
	return s
}

// Fault describes what to do at a chosen operation.
type Fault struct {
	Kind string // "error" | "short" | "revoke" | "silent" | "torn" (a write persists Keep bytes, then the client is stopped)
	Err  error
	Keep int // torn: bytes of the write that persist
}

var ErrInjected = errors.New("fsx: injected I/O error")
var ErrRevoked = fmt.Errorf("fsx: handle revoked (client stopped): %w", syscall.EIO)
var ErrBudget = errors.New("fsx: operation budget of the call exhausted (unbounded work)")

// Backend is the shared state behind one or more clients.
type Backend struct {
	Inner     afero.Fs
	Serialize bool // guard every operation with one mutex (afero.MemMapFs is not goroutine safe as a whole)
	big       sync.Mutex

	mu       sync.Mutex
	seq      int64
	ops      []Op
	keepOps  bool
	handles  int64
	open     map[int64]string // open handle -> name
	written  map[string]int64 // path -> max bytes written through one handle
	totalW   int64
	mutCount int64
	opCount  int64

	// FaultAt, when non-nil, is consulted for every operation (under mu): return a fault to inject.
	FaultAt func(op *Op, index int64) *Fault
	// Before is called (without locks held) before an operation is executed; it may block.
	Before func(op *Op)
	// After is called after the operation was executed and recorded.
	After func(op *Op)
	// Budget, when > 0, makes every operation beyond this count fail with ErrBudget.
	Budget   int64
	overrun  atomic.Bool
	budgetAt int64
}

func NewBackend(inner afero.Fs) *Backend {
	return &Backend{Inner: inner, open: map[int64]string{}, written: map[string]int64{}, keepOps: true}
}

// KeepOps toggles the retention of the operation log (counters are always kept).
func (b *Backend) KeepOps(keep bool) { b.mu.Lock(); b.keepOps = keep; b.mu.Unlock() }

func (b *Backend) Reset() {
	b.mu.Lock()
	defer b.mu.Unlock()
	b.ops = nil
	b.written = map[string]int64{}
	b.totalW = 0
	b.mutCount = 0
	b.opCount = 0
	b.budgetAt = 0
	b.overrun.Store(false)
}

func (b *Backend) Ops() []Op {
	b.mu.Lock()
	defer b.mu.Unlock()
	out := make([]Op, len(b.ops))
	copy(out, b.ops)
	return out
}

func (b *Backend) OpCount() int64       { b.mu.Lock(); defer b.mu.Unlock(); return b.opCount }
func (b *Backend) MutationCount() int64 { b.mu.Lock(); defer b.mu.Unlock(); return b.mutCount }
func (b *Backend) Overran() bool        { return b.overrun.Load() }

// StartBudget counts the budget from now.
func (b *Backend) StartBudget(n int64) {
	b.mu.Lock()
	b.Budget = n
	b.budgetAt = b.opCount
	b.overrun.Store(false)
	b.mu.Unlock()
}

// OpenHandles lists the names of handles opened and not closed.
func (b *Backend) OpenHandles() []string {
	b.mu.Lock()
	defer b.mu.Unlock()
	var out []string
	for _, n := range b.open {
		out = append(out, n)
	}
	return out
}

// MaxWritten returns, per path, the largest number of bytes written through one handle.
func (b *Backend) MaxWritten() map[string]int64 {
	b.mu.Lock()
	defer b.mu.Unlock()
	out := map[string]int64{}
	for k, v := range b.written {
		out[k] = v
	}
	return out
}

// Client is one afero.Fs view of the backend.
type Client struct {
	b       *Backend
	name    string
	revoked atomic.Bool
	keep    atomic.Int64 // bytes a torn write persists (-1: half of it)
}

func (b *Backend) Client(name string) *Client {
	c := &Client{b: b, name: name}
	c.keep.Store(-1)
	return c
}

// part is what a short / torn write persists of n bytes.
func (c *Client) part(n int) int {
	if k := c.keep.Load(); k >= 0 && int(k) <= n {
		return int(k)
	}
	return n / 2
}

// Revoke makes this and every later operation of the client fail without effect: the model of a
// process stop at an operation boundary.
func (c *Client) Revoke()           { c.revoked.Store(true) }
func (c *Client) Name() string      { return c.name }
func (c *Client) Revoked() bool     { return c.revoked.Load() }
func (c *Client) Backend() *Backend { return c.b }

// Fs returns the afero.Fs to hand to the library; full=true also exposes the optional
// symlink / readlink / chown / link / force-remove interfaces (OS backend).
func (c *Client) Fs(full bool) afero.Fs {
	if full {
		return &fullFs{baseFs{c}}
	}
	return &baseFs{c}
}

func clean(p string) string {
	if p == "" {
		return p
	}
	return filepath.Clean(p)
}

// do runs one operation through hooks, faults and recording. exec performs the real operation and
// returns (bytes, error). For "short" faults exec receives short=true.
func (c *Client) do(op Op, exec func(short bool) (int, error)) (int, error) {
	return c.doP(&op, exec)
}

// doP is do with the operation passed by reference, so that exec can add result details to the record.
func (c *Client) doP(opp *Op, exec func(short bool) (int, error)) (int, error) {
	b := c.b
	op := *opp
	op.Client = c.name
	op.Gid = 0
	if b.Before != nil {
		b.Before(&op)
	}
	if b.Serialize {
		b.big.Lock()
	}
	b.mu.Lock()
	b.seq++
	op.Seq = b.seq
	idx := b.opCount
	b.opCount++
	var fault *Fault
	if c.revoked.Load() {
		fault = &Fault{Kind: "revoke"}
	} else if b.Budget > 0 && b.opCount-b.budgetAt > b.Budget {
		b.overrun.Store(true)
		fault = &Fault{Kind: "error", Err: ErrBudget}
	} else if b.FaultAt != nil {
		fault = b.FaultAt(&op, idx)
	}
	b.mu.Unlock()
	op.Start = time.Now().UnixNano()
	var n int
	var err error
	switch {
	case fault == nil:
		n, err = exec(false)
		op.ModTime = opp.ModTime
	case fault.Kind == "revoke":
		c.revoked.Store(true)
		op.Injected = true
		err = ErrRevoked
	case fault.Kind == "short" && (op.Kind == "write" || op.Kind == "writeat" || op.Kind == "writestring"):
		op.Injected = true
		n, err = exec(true)
		if err == nil {
			err = io.ErrShortWrite
			if fault.Err != nil {
				err = fault.Err
			}
		}
	case fault.Kind == "torn" && (op.Kind == "write" || op.Kind == "writeat" || op.Kind == "writestring"):
		// a process stop in the middle of a write: part of the data persists, the client is gone
		op.Injected = true
		c.keep.Store(int64(fault.Keep))
		n, _ = exec(true)
		c.keep.Store(-1)
		c.revoked.Store(true)
		err = ErrRevoked
	case fault.Kind == "silent" && (op.Kind == "write" || op.Kind == "writeat" || op.Kind == "writestring"):
		// a write that persists only part of the data yet reports complete success
		op.Injected = true
		n, err = exec(true)
		if err == nil {
			n = op.Len
		}
	default:
		op.Injected = true
		err = fault.Err
		if err == nil {
			err = ErrInjected
		}
	}
	op.End = time.Now().UnixNano()
	op.N = n
	if err != nil {
		op.Err = err.Error()
	}
	b.mu.Lock()
	if op.Mutating {
		b.mutCount++
	}
	if b.keepOps {
		b.ops = append(b.ops, op)
	}
	b.mu.Unlock()
	if b.Serialize {
		b.big.Unlock()
	}
	if b.After != nil {
		b.After(&op)
	}
	return n, err
}

type baseFs struct{ c *Client }

func (f *baseFs) Name() string { return "fsx(" + f.c.b.Inner.Name() + ")" }

func writeFlags(flag int) bool {
	return flag&(os.O_WRONLY|os.O_RDWR|os.O_CREATE|os.O_TRUNC|os.O_APPEND) != 0
}

func (f *baseFs) wrapFile(file afero.File, name string, err error) (afero.File, error) {
	if err != nil || file == nil {
		return nil, err
	}
	b := f.c.b
	b.mu.Lock()
	b.handles++
	id := b.handles
	b.open[id] = clean(name)
	b.mu.Unlock()
	return &File{File: file, c: f.c, id: id, name: clean(name)}, nil
}

func (f *baseFs) Create(name string) (afero.File, error) {
	var file afero.File
	_, err := f.c.do(Op{Kind: "create", Path: clean(name), Mutating: true}, func(bool) (int, error) {
		var e error
		file, e = f.c.b.Inner.Create(name)
		return 0, e
	})
	return f.wrapFile(file, name, err)
}

func (f *baseFs) Mkdir(name string, perm os.FileMode) error {
	_, err := f.c.do(Op{Kind: "mkdir", Path: clean(name), Mutating: true}, func(bool) (int, error) { return 0, f.c.b.Inner.Mkdir(name, perm) })
	return err
}

func (f *baseFs) MkdirAll(path string, perm os.FileMode) error {
	_, err := f.c.do(Op{Kind: "mkdirall", Path: clean(path), Mutating: true}, func(bool) (int, error) { return 0, f.c.b.Inner.MkdirAll(path, perm) })
	return err
}

func (f *baseFs) Open(name string) (afero.File, error) {
	var file afero.File
	_, err := f.c.do(Op{Kind: "open", Path: clean(name)}, func(bool) (int, error) {
		var e error
		file, e = f.c.b.Inner.Open(name)
		return 0, e
	})
	return f.wrapFile(file, name, err)
}

func (f *baseFs) OpenFile(name string, flag int, perm os.FileMode) (afero.File, error) {
	var file afero.File
	_, err := f.c.do(Op{Kind: "openfile", Path: clean(name), Flags: flag, Mutating: writeFlags(flag)}, func(bool) (int, error) {
		var e error
		file, e = f.c.b.Inner.OpenFile(name, flag, perm)
		return 0, e
	})
	return f.wrapFile(file, name, err)
}

func (f *baseFs) Remove(name string) error {
	_, err := f.c.do(Op{Kind: "remove", Path: clean(name), Mutating: true}, func(bool) (int, error) { return 0, f.c.b.Inner.Remove(name) })
	return err
}

func (f *baseFs) RemoveAll(path string) error {
	_, err := f.c.do(Op{Kind: "removeall", Path: clean(path), Mutating: true}, func(bool) (int, error) { return 0, f.c.b.Inner.RemoveAll(path) })
	return err
}

func (f *baseFs) Rename(oldname, newname string) error {
	_, err := f.c.do(Op{Kind: "rename", Path: clean(oldname), Path2: clean(newname), Mutating: true}, func(bool) (int, error) {
		return 0, f.c.b.Inner.Rename(oldname, newname)
	})
	return err
}

func (f *baseFs) Stat(name string) (os.FileInfo, error) {
	var fi os.FileInfo
	op := Op{Kind: "stat", Path: clean(name)}
	_, err := f.c.doP(&op, func(bool) (int, error) {
		var e error
		fi, e = f.c.b.Inner.Stat(name)
		if e == nil && fi != nil {
			op.ModTime = fi.ModTime().UnixNano()
		}
		return 0, e
	})
	return fi, err
}

func (f *baseFs) Chmod(name string, mode os.FileMode) error {
	_, err := f.c.do(Op{Kind: "chmod", Path: clean(name), Mutating: true}, func(bool) (int, error) { return 0, f.c.b.Inner.Chmod(name, mode) })
	return err
}

func (f *baseFs) Chown(name string, uid, gid int) error {
	_, err := f.c.do(Op{Kind: "chown", Path: clean(name), Mutating: true}, func(bool) (int, error) { return 0, f.c.b.Inner.Chown(name, uid, gid) })
	return err
}

func (f *baseFs) Chtimes(name string, atime time.Time, mtime time.Time) error {
	// (ModTime: the modification time that is being set)
	_, err := f.c.do(Op{Kind: "chtimes", Path: clean(name), Mutating: true, ModTime: mtime.UnixNano()}, func(bool) (int, error) { return 0, f.c.b.Inner.Chtimes(name, atime, mtime) })
	return err
}

func (f *baseFs) LstatIfPossible(name string) (os.FileInfo, bool, error) {
	var fi os.FileInfo
	var ok bool
	_, err := f.c.do(Op{Kind: "lstat", Path: clean(name)}, func(bool) (int, error) {
		if l, has := f.c.b.Inner.(afero.Lstater); has {
			var e error
			fi, ok, e = l.LstatIfPossible(name)
			return 0, e
		}
		var e error
		fi, e = f.c.b.Inner.Stat(name)
		return 0, e
	})
	return fi, ok, err
}

// fullFs adds the optional interfaces of the OS backend.
type fullFs struct{ baseFs }

func (f *fullFs) SymlinkIfPossible(oldname, newname string) error {
	_, err := f.c.do(Op{Kind: "symlink", Path: clean(newname), Path2: oldname, Mutating: true}, func(bool) (int, error) {
		if l, ok := f.c.b.Inner.(afero.Linker); ok {
			return 0, l.SymlinkIfPossible(oldname, newname)
		}
		return 0, afero.ErrNoSymlink
	})
	return err
}

func (f *fullFs) ReadlinkIfPossible(name string) (string, error) {
	var target string
	_, err := f.c.do(Op{Kind: "readlink", Path: clean(name)}, func(bool) (int, error) {
		if l, ok := f.c.b.Inner.(afero.LinkReader); ok {
			var e error
			target, e = l.ReadlinkIfPossible(name)
			return 0, e
		}
		return 0, afero.ErrNoReadlink
	})
	return target, err
}

func (f *fullFs) ChownIfPossible(name string, uid int, gid int) error {
	_, err := f.c.do(Op{Kind: "chown", Path: clean(name), Mutating: true}, func(bool) (int, error) {
		if l, ok := f.c.b.Inner.(interface{ ChownIfPossible(string, int, int) error }); ok {
			return 0, l.ChownIfPossible(name, uid, gid)
		}
		return 0, f.c.b.Inner.Chown(name, uid, gid)
	})
	return err
}

func (f *fullFs) LinkIfPossible(oldname, newname string) error {
	_, err := f.c.do(Op{Kind: "link", Path: clean(newname), Path2: clean(oldname), Mutating: true}, func(bool) (int, error) {
		if l, ok := f.c.b.Inner.(interface{ LinkIfPossible(string, string) error }); ok {
			return 0, l.LinkIfPossible(oldname, newname)
		}
		return 0, errors.New("link not supported")
	})
	return err
}

func (f *fullFs) ForceRemoveIfPossible(name string) error {
	_, err := f.c.do(Op{Kind: "forceremove", Path: clean(name), Mutating: true}, func(bool) (int, error) {
		if l, ok := f.c.b.Inner.(interface{ ForceRemoveIfPossible(string) error }); ok {
			return 0, l.ForceRemoveIfPossible(name)
		}
		return 0, f.c.b.Inner.RemoveAll(name)
	})
	return err
}

// File wraps an open handle.
type File struct {
	afero.File
	c       *Client
	id      int64
	name    string
	written int64
	closed  atomic.Bool
}

func (f *File) op(kind string, mut bool) Op {
	return Op{Kind: kind, Path: f.name, Handle: f.id, Mutating: mut}
}

func (f *File) wop(kind string, n int) Op {
	o := f.op(kind, true)
	o.Len = n
	return o
}

func (f *File) noteWrite(n int) {
	if n <= 0 {
		return
	}
	b := f.c.b
	b.mu.Lock()
	f.written += int64(n)
	if f.written > b.written[f.name] {
		b.written[f.name] = f.written
	}
	b.totalW += int64(n)
	b.mu.Unlock()
}

func (f *File) Close() error {
	_, err := f.c.do(f.op("close", false), func(bool) (int, error) { return 0, f.File.Close() })
	if f.c.revoked.Load() {
		// a stopped client's descriptors are closed by the operating system
		_ = f.File.Close()
	}
	if !f.closed.Swap(true) {
		f.c.b.mu.Lock()
		delete(f.c.b.open, f.id)
		f.c.b.mu.Unlock()
	}
	return err
}

func (f *File) Read(p []byte) (int, error) {
	return f.c.do(f.op("read", false), func(bool) (int, error) { return f.File.Read(p) })
}

func (f *File) ReadAt(p []byte, off int64) (int, error) {
	return f.c.do(f.op("readat", false), func(bool) (int, error) { return f.File.ReadAt(p, off) })
}

func (f *File) Seek(offset int64, whence int) (int64, error) {
	var r int64
	_, err := f.c.do(f.op("seek", false), func(bool) (int, error) {
		var e error
		r, e = f.File.Seek(offset, whence)
		return 0, e
	})
	return r, err
}

func (f *File) Write(p []byte) (int, error) {
	n, err := f.c.do(f.wop("write", len(p)), func(short bool) (int, error) {
		if short {
			return f.File.Write(p[:f.c.part(len(p))])
		}
		return f.File.Write(p)
	})
	f.noteWrite(n)
	return n, err
}

func (f *File) WriteAt(p []byte, off int64) (int, error) {
	n, err := f.c.do(f.wop("writeat", len(p)), func(short bool) (int, error) {
		if short {
			return f.File.WriteAt(p[:f.c.part(len(p))], off)
		}
		return f.File.WriteAt(p, off)
	})
	f.noteWrite(n)
	return n, err
}

func (f *File) WriteString(s string) (int, error) {
	n, err := f.c.do(f.wop("writestring", len(s)), func(short bool) (int, error) {
		if short {
			return f.File.WriteString(s[:f.c.part(len(s))])
		}
		return f.File.WriteString(s)
	})
	f.noteWrite(n)
	return n, err
}

func (f *File) Truncate(size int64) error {
	_, err := f.c.do(f.op("truncate", true), func(bool) (int, error) { return 0, f.File.Truncate(size) })
	return err
}

func (f *File) Sync() error {
	_, err := f.c.do(f.op("sync", false), func(bool) (int, error) { return 0, f.File.Sync() })
	return err
}

func (f *File) Stat() (os.FileInfo, error) {
	var fi os.FileInfo
	_, err := f.c.do(f.op("fstat", false), func(bool) (int, error) {
		var e error
		fi, e = f.File.Stat()
		return 0, e
	})
	return fi, err
}

func (f *File) Readdir(count int) ([]os.FileInfo, error) {
	var r []os.FileInfo
	_, err := f.c.do(f.op("readdir", false), func(bool) (int, error) {
		var e error
		r, e = f.File.Readdir(count)
		return len(r), e
	})
	return r, err
}

func (f *File) Readdirnames(n int) ([]string, error) {
	var r []string
	_, err := f.c.do(f.op("readdirnames", false), func(bool) (int, error) {
		var e error
		r, e = f.File.Readdirnames(n)
		return len(r), e
	})
	return r, err
}

func (f *File) Fd() uintptr {
	if x, ok := f.File.(interface{ Fd() uintptr }); ok {
		return x.Fd()
	}
	return 0
}

// Inside reports whether p (cleaned, absolute or relative to the same base as root) is root or below it.
func Inside(root, p string) bool {
	root, p = filepath.Clean(root), filepath.Clean(p)
	if p == root {
		return true
	}
	if root == "/" {
		return strings.HasPrefix(p, "/")
	}
	return strings.HasPrefix(p, root+string(filepath.Separator))
}

// Abs resolves p lexically against cwd.
func Abs(cwd, p string) string {
	if filepath.IsAbs(p) {
		return filepath.Clean(p)
	}
	return filepath.Clean(filepath.Join(cwd, p))
}
